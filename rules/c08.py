"""C08 — generated configuration values line up with field names (DESIGN.md section 5, C08).

Primary use of the sequence-shape interpreter (sa/shape.py): for every accelerator the shape of the declared
field list and the shape of the generated value list are derived symbolically in the streamer configuration
and compared segment by segment, with labels (name stem vs value provenance).
"""

from __future__ import annotations

import ast
import copy
from collections import Counter
import re

from sa import norm
from sa.errors import AnalysisError
from sa.flow import Flow, Site
from sa.model import Cls, Func, Repo
from sa.norm import T
from sa.report import Check
from sa.shape import One, Opt, Rep, ShapeInterp, Splice, Unk, compare, flat_text, pairs, skeleton

from .common import callee_name, depends_on, flow_of, has_fact, subexprs

SNAX = "snaxc/accelerators/snax.py"
XDMA = "snaxc/accelerators/snax_xdma.py"
GEMMX = "snaxc/accelerators/snax_gemmx.py"
ALU = "snaxc/accelerators/snax_alu.py"
PHS = "snaxc/accelerators/snax_phs.py"
VOCAB = ("upper_bounds", "temporal_strides", "spatial_strides", "operands", "zero_address")
CONFIG_COND = re.compile(r"^(Has\(|isinstance\(\$\d+, StreamerExtension\))")

# field name stem -> provenance the value must have (frozen correspondence table)
STEM_PROVENANCE = {
    "sstride": {"spatial_strides"},
    "bound": {"upper_bounds"},
    "tstride": {"temporal_strides"},
    "ptr_low": {"operands", "zero_address"},
}


def dom_norm(key: str) -> str:
    # the extension tables rule establishes len(get_csr_values(..)) == csr_length
    m = re.fullmatch(r"(\$\d+)\.get_csr_values\(.*\)", key)
    if m:
        return f"{m.group(1)}.csr_length#"
    m = re.fullmatch(r"range\((\$\d+)\.csr_length\)", key)
    if m:
        return f"{m.group(1)}.csr_length#"
    return key


def normalise(seq):
    out = []
    for it in seq:
        if isinstance(it, Rep):
            out.append(Rep(dom_norm(it.dom), normalise(it.body)))
        elif isinstance(it, Opt):
            out.append(Opt(it.cond, normalise(it.then), normalise(it.els)))
        else:
            out.append(it)
    return tuple(out)


def diff(fields, values, path: str = "") -> list[tuple[str, str, str]]:
    """(kind, location label, message): kind in {mismatch, undecided}.  `fields` never depends on data, so an
    Opt on a data condition in `values` must have every branch match the field segment."""
    out: list[tuple[str, str, str]] = []
    fa, va = list(fields), list(values)
    # align greedily: data-conditioned Opt in values stands for the segments of its branches
    i = j = 0
    while i < len(fa) or j < len(va):
        if j < len(va) and isinstance(va[j], Opt) and not CONFIG_COND.match(va[j].cond):
            # data condition: both branches are alternatives for the following field segments
            v = va[j]
            nthen, nels = len(v.then), len(v.els)
            take = max(nthen, nels)
            seg = fa[i : i + take]
            for br, name in ((v.then, "then"), (v.els, "else")):
                sub = diff(fa[i : i + len(br)], br, path)
                if len(br) != take:
                    lab = _lab(seg[0]) if seg else "end"
                    out.append(("mismatch", lab, f"{path}: on data condition `{v.cond[:80]}` the {name}-branch generates {flat_text(br)[:80] or 'nothing'} "
                                                 f"but the other branch {flat_text(v.then if name == 'else' else v.els)[:80] or 'nothing'}: the number of values depends on the operation"))
                out += sub
            i += take
            j += 1
            continue
        if i >= len(fa) or j >= len(va):
            rest_f = flat_text(fa[i:])[:120]
            rest_v = flat_text(va[j:])[:120]
            lab = _lab(fa[i]) if i < len(fa) else "end"
            out.append(("mismatch", lab, f"{path}: fields continue with [{rest_f}] but values with [{rest_v}]"))
            break
        x, y = fa[i], va[j]
        p = f"{path}/{_lab(x)}"
        if isinstance(x, Splice) and "phs_switch_fields" in x.ref and isinstance(y, Rep) and y.dom.startswith("decode_abstract_graph(self.pe"):
            # equal counts are established by C20.switch-count (get_true_switches vs decode_abstract_graph)
            i += 1
            j += 1
            continue
        if isinstance(y, Unk) or isinstance(x, Unk):
            out.append(("undecided", _lab(x), f"{p}: segment not statically expressible: {flat_text([y])[:100]}"))
        elif type(x) is not type(y):
            out.append(("mismatch", _lab(x), f"{p}: field segment {flat_text([x])[:100]} vs value segment {flat_text([y])[:100]}"))
        elif isinstance(x, Rep):
            if x.dom != y.dom:
                if _data_dom(y.dom):
                    out.append(("undecided", _lab(x), f"{p}: the number of values depends on the operation (`{y.dom}`), fields repeat over `{x.dom}`"))
                else:
                    out.append(("mismatch", _lab(x), f"{p}: fields repeat over `{x.dom}`, values over `{y.dom}`"))
            else:
                out += diff(x.body, y.body, p + f"@{x.dom}")
        elif isinstance(x, Opt):
            if x.cond != y.cond:
                out.append(("mismatch", _lab(x), f"{p}: field present under `{x.cond}`, value under `{y.cond}`"))
            else:
                out += diff(x.then, y.then, p) + diff(x.els, y.els, p + "!")
        elif isinstance(x, Splice) and isinstance(y, Splice) and x.ref != y.ref:
            out.append(("mismatch", x.ref, f"{p}: {x.ref} vs {y.ref}"))
        i += 1
        j += 1
    return out


def _data_dom(dom: str) -> bool:
    """a repetition domain that is not determined by the accelerator configuration (mentions a local that holds data
    of the operation being lowered)"""
    try:
        tree = ast.parse(dom.replace("$", "_L").replace("#", ""), mode="eval")
    except SyntaxError:
        return True
    for n in ast.walk(tree):
        if isinstance(n, ast.Name) and n.id not in ("self", "range", "len", "ceil", "enumerate", "zip") and not n.id.startswith("_L"):
            return True
    return False


def _lab(it) -> str:
    if isinstance(it, One):
        if it.label == "{}_{}_{}":
            return "extension-csr"
        return it.label.replace("{}_", "").replace("_{}", "").replace("{}", "")
    if isinstance(it, Rep):
        return _lab(it.body[0]) if it.body else "rep"
    if isinstance(it, Opt):
        return _lab(it.then[0]) if it.then else "opt"
    if isinstance(it, Splice):
        return it.ref
    return "?"


def run(repo: Repo, chk: Check) -> None:
    chk.explanation = (
        "Shape agreement (F1) by a sequence-shape abstract interpreter: for the regular and the xDMA streamer layout the "
        "field list and the generated value list are derived as symbolic sequences over the streamer configuration "
        "(number of streamers, dims, option sets are symbols) and compared segment by segment, including that data-"
        "dependent branches of the value builder never change the number of values; labels check that bounds/strides/"
        "pointers land in the segments named bound/tstride/sstride/ptr; accelerator-specific tails (gemmx, alu, phs, "
        "hwpe_mult) and launch value lists are compared with the declared tuples; padding and reuse-collapse guards, the "
        "extension CSR tables and the position of values named like fields are checked. Decides count/order/meaning "
        "alignment, not numeric contents."
    )
    streamer_layouts(repo, chk)
    tails(repo, chk)
    padding(repo, chk)
    extension_tables(repo, chk)
    replication_guards(repo, chk)
    shift_packing(repo, chk)
    per_streamer_freshness(repo, chk)
    bypass_bits(repo, chk)
    rescale_source(repo, chk)
    broadcast_any(repo, chk)
    loop_counts(repo, chk)
    zero_points(repo, chk)
    dims_verified(repo, chk)


# --------------------------------------------------------------------------- the verifier measures the pattern the lowering programs
def dims_verified(repo: Repo, chk: Check) -> None:
    """the setup values are read off the stride pattern AS WRITTEN, hardware dimension by hardware dimension (`for dim in enumerate(streamer.temporal_dims):
    upper_bounds[dim]`); a pattern with more dimensions than the streamer loses its outer loops without a word. What keeps such a pattern out is the op
    verifier, so it has to measure the written pattern, not a folded / canonical form of it"""
    chk.rule("C08.dims-verified", "StreamingRegionOp.verify_ rejects a stride pattern whose written temporal (spatial) dimension count exceeds the streamer's - "
             "measured on the pattern itself, the same object the value generator indexes per hardware dimension", floor=2)
    f, fl = flow_of(repo, chk, "snaxc/dialects/snax_stream.py", "StreamingRegionOp.verify_")
    raises = [s for s in fl.stmts(ast.Raise) if s.reachable and s.loops]
    pvars = set()
    for s in raises:
        for l in s.loops:
            if isinstance(l, ast.For) and norm.contains(l.iter, T("self.stride_patterns")):
                t = l.target
                if isinstance(t, ast.Tuple) and t.elts and isinstance(t.elts[0], ast.Name):
                    pvars.add(t.elts[0].id)
                elif isinstance(t, ast.Name):
                    pvars.add(t.id)
    if not pvars:
        raise AnalysisError(f"{f.where}: loop over self.stride_patterns with a rejecting raise not found")
    # the other side of the agreement: the value generator reads the written pattern (no folding of its own)
    g = repo.func(SNAX, "SNAXStreamer._generate_streamer_setup_vals")
    chk.analysed(g.key)
    reads_raw = any(isinstance(a_, ast.Attribute) and a_.attr == "stride_patterns" for a_ in ast.walk(g.node)) \
        and any(isinstance(a_, ast.Attribute) and a_.attr == "upper_bounds" for a_ in ast.walk(g.node)) \
        and not any(isinstance(c, ast.Call) and callee_name(c) in ("canonicalize", "collapse_dimensions") for c in ast.walk(g.node))
    if not reads_raw:
        raise AnalysisError(f"{g.where}: the value generator no longer reads the stride pattern as written; which form the verifier has to measure is not decided by this rule")
    for kind, attr, hw in (("temporal", "temporal_strides", "temporal_dim"), ("spatial", "spatial_strides", "spatial_dim")):
        raw = other = None
        for s in raises:
            for fa in s.facts:
                if fa.kind != "atom":
                    continue
                m = norm.any_match([f"len($p.{attr}) > $s.{hw}", f"$s.{hw} < len($p.{attr})", f"len($p.{attr}.data) > $s.{hw}"], fa.expr)
                if m is None:
                    continue
                pe = norm.primary(m["p"])
                if isinstance(pe, ast.Name) and pe.id in pvars:
                    raw = s
                else:
                    other = (s, ast.unparse(pe))
        if raw is None and other is None:
            raise AnalysisError(f"{f.where}: no rejection of a pattern with more {kind} dimensions than the streamer found")
        chk.result(raw is not None, "C08.dims-verified", f"{f.key}:{kind}", (raw or other[0]).where(),  # type: ignore[index]
                   f"a pattern with more written {kind} dimensions than the streamer is rejected",
                   f"the {kind} dimension count is measured on `{other[1] if other else '?'}`, not on the pattern as written: a pattern whose folded form fits is accepted, "
                   "and the value generator, which indexes the written pattern per hardware dimension, silently drops its outer loops")


# --------------------------------------------------------------------------- the zero points are those the kernel op names
def zero_points(repo: Repo, chk: Check) -> None:
    """kernel.qmac says which block argument is the zero point of its left and of its right operand; the values packed into the `subtractions` register
    are the generic's inputs at exactly those argument positions (zp of A in the low byte, zp of B above it), not the scalar inputs in declaration order"""
    chk.rule("C08.zero-points", "gemmx packs (zero point of A, zero point of B) = (generic input at qmac.zp_lhs's argument index, generic input at qmac.zp_rhs's argument index)", floor=2)
    f, fl = flow_of(repo, chk, GEMMX, "SNAXGEMMXAccelerator._generate_setup_vals")
    packs = [s for s in fl.calls("pack_bitlist") if s.reachable and s.node.args and isinstance(s.node.args[0], (ast.Tuple, ast.List)) and len(s.node.args[0].elts) == 2
             and len(s.node.args) > 1 and ast.unparse(s.node.args[1]).replace(" ", "") in ("[0,8]", "(0,8)")]
    if not packs:
        raise AnalysisError(f"{f.where}: packing of the two zero points (offsets 0 and 8) not found")
    for s in packs:
        for k_, (side, nm) in enumerate((("zp_lhs", "A"), ("zp_rhs", "B"))):
            cone = fl.cone(s.node.args[0].elts[k_], s, inline=0)
            own = norm.contains(cone, T(f"$g.inputs[$q.{side}.index]")) or norm.contains(cone, T(f"$g.operands[$q.{side}.index]"))
            other = "zp_rhs" if side == "zp_lhs" else "zp_lhs"
            crossed = norm.contains(cone, T(f"$g.inputs[$q.{other}.index]"))
            positional = any(isinstance(c_, (ast.GeneratorExp, ast.ListComp)) and norm.contains(c_, T("$g.inputs")) for c_ in ast.walk(cone)) or any(
                isinstance(x, ast.Subscript) and isinstance(x.slice, ast.Constant) and norm.match(T("$g.inputs"), x.value) is not None for x in ast.walk(cone))
            if not own and not crossed and not positional:
                raise AnalysisError(f"{s.where()}: where the zero point of operand {nm} comes from is not recognised: `{ast.unparse(cone)[:120]}`")
            chk.result(own and not crossed and not positional, "C08.zero-points", f"{f.key}:zp-{nm}", s.where(),
                       f"the zero point of {nm} is the generic input at the argument index of qmac.{side}",
                       f"the zero point packed for {nm} is " + ("that of the other operand" if crossed else "picked by position among the generic's inputs") +
                       f", not the input at the argument index of qmac.{side}: a body that wires its scalar arguments in another order (or one of them twice) gets the zero points exchanged")


# --------------------------------------------------------------------------- kernel loop count = number of steps of the streams
def _inline_pattern_method(repo: Repo, v: ast.expr) -> ast.expr | None:
    """`<pattern expr>.m(args)` where exactly one class of the repo defines a method m whose body is one return: that return expression with self and the
    parameters (defaults included) substituted"""
    if not (isinstance(v, ast.Call) and isinstance(v.func, ast.Attribute)):
        return None
    cands = [c.methods[v.func.attr] for c in repo.all_classes() if v.func.attr in c.methods]
    if len(cands) != 1:
        return None
    m = cands[0].node
    body = [b for b in m.body if not (isinstance(b, ast.Expr) and isinstance(b.value, ast.Constant))]
    if len(body) != 1 or not isinstance(body[0], ast.Return) or body[0].value is None:
        return None
    params = [a.arg for a in m.args.args]
    if not params or params[0] != "self" or m.args.vararg or m.args.kwarg:
        return None
    bind: dict[str, ast.expr] = {"self": v.func.value}
    defaults = dict(zip(params[len(params) - len(m.args.defaults):], m.args.defaults))
    for p_, a_ in zip(params[1:], v.args):
        bind[p_] = a_
    for k_ in v.keywords:
        if k_.arg:
            bind[k_.arg] = k_.value
    for p_ in params[1:]:
        if p_ not in bind:
            if p_ not in defaults:
                return None
            bind[p_] = defaults[p_]

    class R(ast.NodeTransformer):
        def visit_Name(self, n: ast.Name) -> ast.AST:
            return copy.deepcopy(bind[n.id]) if n.id in bind and isinstance(n.ctx, ast.Load) else n

    out = R().visit(copy.deepcopy(body[0].value))
    ast.fix_missing_locations(out)
    return norm.canon(out)


def loop_counts(repo: Repo, chk: Check) -> None:
    """a streamer makes prod(temporal bounds) steps. A kernel loop count that is read from the stride patterns is that product (gemmx: K*N*M from the products
    over the bounds), not one of the bounds: with a streamer configuration of several temporal dimensions the kernel would stop after the first dimension"""
    chk.rule("C08.loop-count", "a kernel loop count taken from a stride pattern's upper bounds is the product over ALL of them, never a single entry", floor=2)
    n_ = 0
    for path, qual in ((ALU, "SNAXAluAccelerator._generate_stream_setup_vals"), (PHS, "SNAXPHSAccelerator._generate_stream_setup_vals")):
        f, fl = flow_of(repo, chk, path, qual)
        for s in fl.calls("from_int_and_width"):
            if not s.reachable or not s.node.args:
                continue
            v = norm.primary(s.expand(s.node.args[0]))
            if not norm.contains(v, T("$p.upper_bounds")):
                # a method of the pattern that computes the count: `pattern.steps()` is read as its (single) return expression
                v2 = _inline_pattern_method(repo, v)
                if v2 is None or not norm.contains(v2, T("$p.upper_bounds")):
                    continue
                v = v2
            n_ += 1
            prods = [c for c in ast.walk(v) if isinstance(c, ast.Call) and callee_name(c) in ("prod", "reduce") and norm.contains(c, T("$p.upper_bounds"))]
            def _always(e_: ast.expr) -> bool:
                e_ = norm.canon(e_)
                if isinstance(e_, ast.Constant):
                    return bool(e_.value)
                if isinstance(e_, ast.BoolOp):
                    return any(_always(x_) for x_ in e_.values) if isinstance(e_.op, ast.Or) else all(_always(x_) for x_ in e_.values)
                return False

            filtered = [c for c in prods for g_ in ast.walk(c) if isinstance(g_, ast.comprehension) and any(not _always(i_) for i_ in g_.ifs)]
            if prods and filtered:
                chk.bad("C08.loop-count", f"{f.key}:loop-count#{n_}", s.where(),
                        f"the loop count is `{ast.unparse(v)[:110]}`: a product over SOME of the temporal bounds (a filter drops dimensions), while every streamer makes the "
                        "product of all its bounds - an operand re-read over a loop (temporal stride 0) makes the kernel stop early")
                continue
            whole = bool(prods)
            single = any(isinstance(x, ast.Subscript) and not isinstance(x.slice, ast.Slice) and (norm.match(T("$p.upper_bounds.data"), x.value) is not None or norm.match(
                T("$p.upper_bounds"), x.value) is not None) for x in ast.walk(v))
            if not whole and not single:
                raise AnalysisError(f"{s.where()}: how the loop count is derived from the upper bounds is not recognised: `{ast.unparse(v)[:100]}`")
            chk.result(whole and not single, "C08.loop-count", f"{f.key}:loop-count#{n_}", s.where(), "the loop count is the product of all temporal bounds of the pattern",
                       f"the loop count is `{ast.unparse(v)[:90]}`, one entry of the temporal bounds: for a streamer configuration with several temporal dimensions the kernel "
                       "loop ends after that many steps while the streams make the product of all bounds")
    if n_ == 0:
        raise AnalysisError("no kernel loop count derived from stride-pattern bounds found in the alu / phs value generators")
    # gemmx: M = the output pattern's iterations that move the output (temporal stride != 0), read off that pattern itself; the flags of the streamer
    # configuration say what the hardware CAN do with a dimension, not what this op's pattern does in it
    g, gfl = flow_of(repo, chk, GEMMX, "SNAXGEMMXAccelerator._generate_setup_vals")
    k_ = 0
    for c in ast.walk(g.node):
        if not (isinstance(c, ast.Call) and callee_name(c) == "prod" and c.args and isinstance(c.args[0], (ast.GeneratorExp, ast.ListComp))):
            continue
        gen = c.args[0].generators[0]
        if not (gen.ifs and isinstance(gen.iter, ast.Call) and callee_name(gen.iter) == "zip" and len(gen.iter.args) == 2 and isinstance(gen.target, ast.Tuple) and len(gen.target.elts) == 2):
            continue
        m1 = norm.match(T("$p.upper_bounds"), gen.iter.args[0])
        if m1 is None:
            continue
        k_ += 1
        second = gen.iter.args[1]
        same = norm.match(T("$p.temporal_strides"), second, {"p": m1["p"]}) is not None
        sv = gen.target.elts[1].id if isinstance(gen.target.elts[1], ast.Name) else None
        nz = sv is not None and any(norm.any_match([f"{sv}.data != 0", f"{sv} != 0", f"not {sv}.data == 0"], a_) is not None for i_ in gen.ifs for a_ in norm.atoms(i_, True))
        chk.result(same and nz, "C08.loop-count", f"{g.key}:moving-bounds#{k_}", f"{g.module.relpath}:{c.lineno}",
                   "the bounds that count are those with a non-zero temporal stride in the same pattern",
                   f"the bounds of `{ast.unparse(gen.iter.args[0])[:50]}` are selected by `{ast.unparse(second)[:50]}` / `{ast.unparse(gen.ifs[0])[:50]}`, not by the pattern's own temporal "
                   "strides: a reduction dimension at another position than the streamer's reuse flag gives the wrong M (and K = steps // M)")


# --------------------------------------------------------------------------- a flag found in ANY spatial dimension
def broadcast_any(repo: Repo, chk: Check) -> None:
    """a streamer broadcasts when SOME spatial stride of its operand is zero. The flag is collected while the spatial strides are emitted: inside
    that loop it may only be raised (or or-ed with what it was); assigning it the verdict of the current dimension lets the last dimension decide"""
    chk.rule("C08.broadcast-any", "a per-operand flag initialised to False and set in the loop over the spatial dimensions is only raised there (assigned True, or or-ed with "
             "its previous value), never overwritten with the current dimension's verdict", floor=1)
    f, fl = flow_of(repo, chk, SNAX, "SNAXStreamer._generate_streamer_setup_vals")
    flags = set()
    for st in fl.stmts(ast.Assign):
        v = st.node.value
        if st.reachable and isinstance(st.node.targets[0], ast.Name) and norm.any_match(["[False] * $n", "$n * [False]"], v) is not None or (
                st.reachable and isinstance(st.node.targets[0], ast.Name) and isinstance(v, ast.ListComp) and isinstance(v.elt, ast.Constant) and v.elt.value is False):
            flags.add(st.node.targets[0].id)
    if not flags:
        raise AnalysisError(f"{f.where}: no per-operand flag list initialised to False found")
    n_ = 0
    for st in fl.stmts(ast.Assign, ast.AugAssign):
        tgt = st.node.targets[0] if isinstance(st.node, ast.Assign) else st.node.target
        if not (st.reachable and isinstance(tgt, ast.Subscript) and isinstance(tgt.value, ast.Name) and tgt.value.id in flags):
            continue
        dim_loops = [l for l in st.loops if isinstance(l, ast.For) and norm.contains(l.iter, T("$s.spatial_dims"))]
        if not dim_loops:
            continue
        n_ += 1
        lp = dim_loops[-1]
        v = st.node.value
        local = {n.id for x in lp.body for n in ast.walk(x) if isinstance(n, ast.Name) and isinstance(n.ctx, ast.Store)} | {n.id for n in ast.walk(lp.target) if isinstance(n, ast.Name)}
        prev = ast.unparse(tgt)
        if isinstance(st.node, ast.AugAssign):
            ok = isinstance(st.node.op, ast.BitOr)
            why = "or-accumulated" if ok else f"updated with `{type(st.node.op).__name__}`"
        elif isinstance(v, ast.Constant) and v.value is True:
            ok, why = True, "raised to True"
        elif isinstance(v, ast.BoolOp) and isinstance(v.op, ast.Or) and any(ast.unparse(x) == prev for x in v.values):
            ok, why = True, "or-ed with its previous value"
        elif isinstance(v, ast.BinOp) and isinstance(v.op, ast.BitOr) and prev in (ast.unparse(v.left), ast.unparse(v.right)):
            ok, why = True, "or-ed with its previous value"
        elif local & norm.free_names(v) or local & norm.free_names(st.expand(v)):
            ok, why = False, f"assigned `{ast.unparse(v)[:70]}`, the verdict of the current dimension alone"
        else:
            raise AnalysisError(f"{st.where()}: how the flag `{prev}` is updated inside the loop over the spatial dimensions is not recognised")
        chk.result(ok, "C08.broadcast-any", f"{f.key}:{tgt.value.id}#{n_}", st.where(), f"inside the loop over the spatial dimensions the flag is {why}",
                   f"inside the loop over the spatial dimensions the flag is {why}: the last dimension decides, an operand whose zero stride is in an earlier spatial dimension "
                   "is not broadcast (and one whose last stride is non-zero loses a flag raised before)")
    if n_ == 0:
        chk.ok("C08.broadcast-any", f"{f.key}:no-accumulation", f.where, "no flag is set inside the loop over the spatial dimensions", nontrivial=False)


# --------------------------------------------------------------------------- which kernel.rescale the gemmx registers are taken from
def rescale_source(repo: Repo, chk: Check) -> None:
    chk.rule(
        "C08.rescale-source",
        "the kernel.rescale whose parameters fill the gemmx rescale registers is the one that produces the region's output: it is found from the "
        "region's yield (the op in front of it / the owner of the yielded value) or by a scan over all ops of the body - not at a fixed distance "
        "behind the matmul, which misses the rescale of a fused matmul -> add -> rescale region and silently programs the no-rescale defaults",
        floor=1,
    )
    f, fl = flow_of(repo, chk, GEMMX, "SNAXGEMMXAccelerator._generate_setup_vals")
    op = f.param(1)
    seen: dict[str, Site] = {}
    for s in fl.sites:
        if not s.reachable:
            continue
        for fa in s.facts:
            if fa.kind != "atom":
                continue
            m = norm.any_match(["isinstance($r, kernel.RescaleOp)", "isinstance($r, RescaleOp)"], fa.expr)
            if m is not None:
                seen.setdefault(ast.unparse(m["r"]), s)
    if not seen:
        raise AnalysisError(f"{f.where}: no test for kernel.RescaleOp found")
    for n_, (rtxt, s) in enumerate(sorted(seen.items()), 1):
        r = ast.parse(rtxt, mode="eval").body
        m = norm.any_match(["$g.body.block.first_op", "$g.body.block.ops.first", "$g.body.blocks[0].first_op", "$g.body.block.ops[0]"], r)
        g = m["g"] if m is not None else None
        # the loop variable forms: the generic (or the kernel op) ranges over the ops of the region
        loopvars = {}
        for l in s.loops:
            if isinstance(l, ast.For) and isinstance(l.target, ast.Name):
                loopvars[l.target.id] = s.expand(l.iter)
        verdict = None
        root = g if g is not None else r
        if isinstance(root, ast.Name) and root.id in loopvars:
            it = loopvars[root.id]
            if norm.any_match(["$o.body.block.ops", "$o.body.ops", "$o.body.walk()", "$o.walk()", "reversed($o.body.block.ops)", "$o.body.block.walk()"], it, {"o": op}) is not None:
                verdict = (True, f"every op of the region is inspected ({ast.unparse(it)})")
        elif g is not None:
            if norm.any_match(["$o.body.block.last_op.prev_op", "$o.body.block.ops.last.prev_op", "$o.body.block.last_op.arguments[$i].owner",
                               "$o.body.block.last_op.arguments[$i].op", "$o.body.block.last_op.operands[$i].owner", "$o.body.block.last_op.operands[$i].op"], g, {"o": op}) is not None:
                verdict = (True, f"the generic is found from the region's yield ({ast.unparse(g)})")
            else:
                hops = 0
                cur = g
                while isinstance(cur, ast.Attribute) and cur.attr == "next_op":
                    hops += 1
                    cur = cur.value
                if not hops and norm.any_match(["$o.body.block.first_op", "$o.body.block.ops.first"], cur, {"o": op}) is not None:
                    verdict = (True, "the region's own (first) kernel is a rescale: stand-alone rescale region")
                elif hops and norm.any_match(["$o.body.block.first_op", "$o.body.block.ops.first"], cur, {"o": op}) is not None:
                    verdict = (False, f"the rescale is looked up {hops} op(s) behind the first generic ({ast.unparse(g)}): in a fused matmul -> add -> rescale region that is the add, "
                                      "so the rescale registers silently get the no-rescale defaults")
        if verdict is None:
            raise AnalysisError(f"{s.where()}: how the rescale op `{rtxt}` is located in the region is not recognised")
        chk.result(verdict[0], "C08.rescale-source", f"{f.key}:rescale#{n_}", s.where(), verdict[1], verdict[1])


# --------------------------------------------------------------------------- per-streamer quantities are computed per streamer
def _per_streamer_loop(n: ast.AST) -> bool:
    return isinstance(n, ast.For) and "streamers" in ast.unparse(n.iter) and "streamer_names)" not in ast.unparse(n.iter).replace(" ", "")[-16:] or (
        isinstance(n, ast.For) and "streamers" in ast.unparse(n.iter))


def per_streamer_freshness(repo: Repo, chk: Check) -> None:
    chk.rule(
        "C08.per-streamer-fresh",
        "in the value generators, a local that is computed inside a loop over the streamers (a per-streamer quantity such as the "
        "zero-pattern flag) is, in every iteration of such a loop that reads it, assigned on every path before the read: a value "
        "for streamer i is never derived from what another streamer's iteration left behind",
        floor=2,
    )
    n_checked = 0
    for path, qual in ((SNAX, "SNAXStreamer._generate_streamer_setup_vals"), (XDMA, "SNAXXDMAAccelerator._generate_stream_setup_vals")):
        f = repo.func(path, qual)
        chk.analysed(f.key)
        loops = [n for n in ast.walk(f.node) if _per_streamer_loop(n)]
        outer = [l for l in loops if not any(l is not o and any(l is x for x in ast.walk(o)) for o in loops)]
        if not outer:
            raise AnalysisError(f"{f.where}: no loop over the streamers found")
        # names bound inside some per-streamer loop: the per-streamer quantities
        per: set[str] = set()
        for l in outer:
            for n in ast.walk(l):
                if isinstance(n, ast.Name) and isinstance(n.ctx, ast.Store):
                    per.add(n.id)
        problems: list[tuple[int, str]] = []

        def reads(e: ast.AST, defined: set[str], bound: set[str]) -> None:
            """report reads of per-streamer names that are not definitely assigned; walrus targets become defined in evaluation order"""
            if isinstance(e, ast.NamedExpr):
                reads(e.value, defined, bound)
                defined.add(e.target.id)
                return
            if isinstance(e, (ast.ListComp, ast.SetComp, ast.GeneratorExp, ast.DictComp)):
                inner = set(bound)
                for g in e.generators:
                    reads(g.iter, defined, inner)
                    inner |= {x.id for x in ast.walk(g.target) if isinstance(x, ast.Name)}
                    for c in g.ifs:
                        reads(c, defined, inner)
                for part in ([e.key, e.value] if isinstance(e, ast.DictComp) else [e.elt]):
                    reads(part, defined, inner)
                return
            if isinstance(e, ast.Lambda):
                return
            if isinstance(e, ast.BoolOp):
                # operands after the first are evaluated conditionally: what they bind is not definitely bound afterwards
                reads(e.values[0], defined, bound)
                for v in e.values[1:]:
                    reads(v, set(defined), bound)
                return
            if isinstance(e, ast.IfExp):
                reads(e.test, defined, bound)
                reads(e.body, set(defined), bound)
                reads(e.orelse, set(defined), bound)
                return
            if isinstance(e, ast.Name) and isinstance(e.ctx, ast.Load) and e.id in per and e.id not in defined and e.id not in bound:
                problems.append((e.lineno, e.id))
            for c in ast.iter_child_nodes(e):
                reads(c, defined, bound)

        def true_binds(t: ast.expr) -> set[str]:
            """names an assignment expression binds whenever the test is true (`a and f(w := x)`: w is bound in the then-branch)"""
            if isinstance(t, ast.BoolOp):
                if isinstance(t.op, ast.And):
                    out_: set[str] = set()
                    for v in t.values:
                        out_ |= true_binds(v)
                    return out_
                return true_binds(t.values[0])
            if isinstance(t, ast.UnaryOp) and isinstance(t.op, ast.Not):
                return false_binds(t.operand)
            if isinstance(t, ast.IfExp):
                return true_binds(t.test)
            out_ = set()
            for n in ast.walk(t):
                if isinstance(n, ast.NamedExpr) and isinstance(n.target, ast.Name):
                    out_.add(n.target.id)
            return out_

        def false_binds(t: ast.expr) -> set[str]:
            """names bound whenever the test is false (`not a or not f(w := x)` is false only if every operand was evaluated)"""
            if isinstance(t, ast.BoolOp):
                if isinstance(t.op, ast.Or):
                    out_: set[str] = set()
                    for v in t.values:
                        out_ |= false_binds(v)
                    return out_
                return false_binds(t.values[0])
            if isinstance(t, ast.UnaryOp) and isinstance(t.op, ast.Not):
                return true_binds(t.operand)
            if isinstance(t, ast.IfExp):
                return false_binds(t.test)
            out_ = set()
            for n in ast.walk(t):
                if isinstance(n, ast.NamedExpr) and isinstance(n.target, ast.Name):
                    out_.add(n.target.id)
            return out_

        def block(stmts: list[ast.stmt], defined: set[str]) -> tuple[set[str], bool]:
            """definite assignment through a statement list; returns (defined at the end, whether the end is reachable)"""
            for st in stmts:
                if isinstance(st, (ast.Assign, ast.AnnAssign)):
                    if st.value is not None:
                        reads(st.value, defined, set())
                    tg = st.targets if isinstance(st, ast.Assign) else [st.target]
                    for t in tg:
                        if isinstance(t, ast.Name):
                            if st.value is not None:
                                defined.add(t.id)
                        else:
                            reads(t, defined, set())
                            for x in ast.walk(t):
                                if isinstance(x, ast.Name) and isinstance(x.ctx, ast.Store):
                                    defined.add(x.id)
                elif isinstance(st, ast.AugAssign):
                    reads(st.value, defined, set())
                    if isinstance(st.target, ast.Name):
                        if st.target.id in per and st.target.id not in defined:
                            problems.append((st.lineno, st.target.id))
                    else:
                        reads(st.target, defined, set())
                elif isinstance(st, ast.If):
                    reads(st.test, defined, set())
                    da, ra = block(st.body, set(defined) | true_binds(st.test))
                    db, rb = block(st.orelse, set(defined) | false_binds(st.test))
                    if ra and rb:
                        defined |= (da & db)
                    elif ra:
                        defined |= da
                    elif rb:
                        defined |= db
                    else:
                        return defined, False
                elif isinstance(st, ast.For):
                    reads(st.iter, defined, set())
                    inner = set(defined) | {x.id for x in ast.walk(st.target) if isinstance(x, ast.Name)}
                    block(st.body, inner)  # may run zero times: nothing it binds is definitely bound afterwards
                    block(st.orelse, set(defined))
                elif isinstance(st, ast.While):
                    reads(st.test, defined, set())
                    block(st.body, set(defined))
                elif isinstance(st, (ast.Return, ast.Raise, ast.Continue, ast.Break)):
                    for c in ast.iter_child_nodes(st):
                        reads(c, defined, set())
                    return defined, False
                elif isinstance(st, ast.Assert):
                    reads(st.test, defined, set())
                else:
                    for c in ast.iter_child_nodes(st):
                        if isinstance(c, ast.expr):
                            reads(c, defined, set())
                        elif isinstance(c, ast.stmt):
                            block([c], set(defined))
            return defined, True

        for l in outer:
            start = {x.id for x in ast.walk(l.target) if isinstance(x, ast.Name)}
            block(l.body, set(start))
        seen: set[str] = set()
        for line, name in sorted(problems):
            if name in seen:
                continue
            seen.add(name)
            chk.bad("C08.per-streamer-fresh", f"{f.key}:{name}", f"{path}:{line}",
                    f"`{name}` is computed inside a loop over the streamers but read here in an iteration that has not (on every path) assigned it: "
                    "the value for this streamer is what another streamer's iteration left behind")
        n_checked += 1
        if not problems:
            chk.ok("C08.per-streamer-fresh", f"{f.key}", f.where,
                   f"all {len(per)} per-streamer locals ({', '.join(sorted(per))[:120]}) are assigned in the iteration that reads them")
    if n_checked < 2:
        raise AnalysisError("per-streamer freshness: value generators not found")


# --------------------------------------------------------------------------- bypass mask: bit k = k-th extension
def bypass_bits(repo: Repo, chk: Check) -> None:
    chk.rule(
        "C08.bypass-bit",
        "xDMA: the bit set in <streamer>_bypass for an extension is that extension's position among the streamer's EXTENSIONS (the order "
        "in which their CSR blocks are declared), counted per streamer from 0 and advanced once per extension whether or not the kernel "
        "is supported - not its position in the whole option list",
        floor=1,
    )
    f, fl = flow_of(repo, chk, XDMA, "SNAXXDMAAccelerator._generate_stream_setup_vals")
    sets = []
    for s in fl.stmts(ast.AugAssign):
        if not s.reachable or not isinstance(s.node.op, (ast.Add, ast.BitOr)):
            continue
        m = norm.any_match(["2 ** $i", "1 << $i"], s.node.value)
        if m is not None and isinstance(m["i"], ast.Name):
            sets.append((s, m["i"].id))
    if not sets:
        # a comprehension form: sum(2 ** k for k, e in enumerate(<extensions>) if ..)
        for s in fl.sites:
            if s.node is s.stmt and s.reachable and isinstance(s.stmt, (ast.Assign, ast.AnnAssign)) and s.stmt.value is not None:
                for comp in [c for c in ast.walk(s.stmt.value) if isinstance(c, (ast.GeneratorExp, ast.ListComp))]:
                    m = norm.any_match(["2 ** $i", "1 << $i"], comp.elt)
                    if m is not None and isinstance(m["i"], ast.Name) and len(comp.generators) == 1:
                        g_ = comp.generators[0]
                        ok = _enumerates_extensions_only(fl, s, g_.target, g_.iter, m["i"].id)
                        chk.result(ok, "C08.bypass-bit", f"{f.key}:position", s.where(),
                                   "the bit position enumerates the streamer's extensions only",
                                   "the bypass bit of an extension is its index in the whole option list, not among the extensions: with a plain option "
                                   "listed before it, the bit selects another extension's (or no) CSR block")
                        return
        raise AnalysisError(f"{f.where}: the statement setting a bypass bit (`bypass += 2 ** i`) was not found")
    for s, iv in sets:
        lp = [l for l in s.loops if isinstance(l, ast.For)]
        ok = False
        why = "the bit position is not a per-streamer extension counter"
        # (b) the index of an enumeration over the extensions only
        for l in lp:
            if isinstance(l.target, ast.Tuple) and len(l.target.elts) == 2 and isinstance(l.target.elts[0], ast.Name) and l.target.elts[0].id == iv:
                ok = _enumerates_extensions_only(fl, s, l.target, l.iter, iv)
                if not ok:
                    why = f"the bit position is the index in `{ast.unparse(l.iter)[:60]}`, which also counts options that are not extensions"
        # (a) a counter: `i = 0` per streamer, `i += 1` once per extension
        incs = [x for x in fl.stmts(ast.AugAssign) if x.reachable and isinstance(x.node.target, ast.Name) and x.node.target.id == iv and isinstance(x.node.op, ast.Add)
                and isinstance(x.node.value, ast.Constant) and x.node.value.value == 1]
        inits = [x for x in fl.stmts(ast.Assign) if x.reachable and isinstance(x.node.targets[0], ast.Name) and x.node.targets[0].id == iv
                 and isinstance(x.node.value, ast.Constant) and x.node.value.value == 0 and any(_per_streamer_loop(l) for l in x.loops)]
        if incs and inits and not ok:
            good = True
            for x in incs:
                opt_loops = [l for l in x.loops if isinstance(l, ast.For) and norm.any_match(["$s.opts"], l.iter) is not None]
                if not opt_loops or not isinstance(opt_loops[-1].target, ast.Name):
                    good = False
                    continue
                ev = opt_loops[-1].target.id
                head = next((h for h in fl.stmts(ast.For) if h.node is opt_loops[-1]), None)
                base = set(head.fact_texts) if head is not None else set()
                new = [fa for fa in x.facts if fa.kind == "atom" and fa.text not in base]
                is_ext = [fa for fa in new if norm.any_match([f"isinstance({ev}, StreamerExtension)"], fa.expr) is not None]
                others = [fa for fa in new if fa not in is_ext]
                if not is_ext or others:
                    good = False
                    why = f"the counter is advanced under {[fa.text[:60] for fa in new]}; expected exactly `isinstance({ev}, StreamerExtension)`"
            ok = good
        chk.result(ok, "C08.bypass-bit", f"{f.key}:position", s.where(),
                   "the bit position counts the streamer's extensions only, once per extension",
                   f"{why}: with a plain option listed before an extension (or an unsupported kernel in between) the bit selects another extension's CSR block")


def _enumerates_extensions_only(fl: Flow, site: Site, target: ast.expr, it: ast.expr, iv: str) -> bool:
    it = site.expand(it)
    if not (isinstance(it, ast.Call) and callee_name(it) == "enumerate" and it.args):
        return False
    dom = norm.primary(it.args[0])
    for _ in range(3):
        if isinstance(dom, ast.Call) and isinstance(dom.func, ast.Name) and dom.func.id in ("list", "tuple") and len(dom.args) == 1:
            dom = dom.args[0]
    if isinstance(dom, (ast.ListComp, ast.GeneratorExp)) and len(dom.generators) == 1 and isinstance(dom.generators[0].target, ast.Name):
        g_ = dom.generators[0]
        v = g_.target.id
        conds = [a for c in g_.ifs for a in norm.atoms(c, True)]
        return isinstance(dom.elt, ast.Name) and dom.elt.id == v and norm.any_match(["$s.opts"], g_.iter) is not None and any(
            norm.any_match([f"isinstance({v}, StreamerExtension)"], c) is not None for c in conds)
    return False


# --------------------------------------------------------------------------- streamer layouts
def _streamer_classes(repo: Repo) -> list[Cls]:
    base = repo.cls(SNAX, "SNAXStreamer")
    return [c for c in repo.subclasses(base) if not any("ABC" in ast.unparse(b) for b in c.node.bases)]


def _report(chk: Check, rule: str, base_key: str, where: str, diffs: list[tuple[str, str, str]], ok_detail: str) -> None:
    mism = [d for d in diffs if d[0] == "mismatch"]
    und = [d for d in diffs if d[0] == "undecided"]
    for _, lab, msg in und:
        chk.undecided.append(f"{base_key}:{lab}: {msg}")
    if not mism:
        chk.ok(rule, base_key, where, ok_detail + (f" ({len(und)} segment(s) undecided)" if und else ""))
    seen = set()
    for _, lab, msg in mism:
        k = f"{base_key}:{lab}"
        if k in seen:
            continue
        seen.add(k)
        chk.bad(rule, k, where, msg)


def streamer_layouts(repo: Repo, chk: Check) -> None:
    chk.rule(
        "C08.streamer-shape",
        "per streamer layout (regular / xDMA): symbolic shape of the setup field list == symbolic shape of the generated setup "
        "values, for every streamer configuration; data-dependent branches never change the number of values",
        floor=2,
    )
    chk.rule("C08.labels", "values of provenance upper_bounds / temporal_strides / spatial_strides / operands sit in the segments named bound / tstride / sstride / ptr_low", floor=6)
    done: set[tuple[str, str]] = set()
    for c in _streamer_classes(repo):
        for kind, fm, vm in (("regular", "get_streamer_setup_fields", "_generate_streamer_setup_vals"), ("xdma", "get_xdma_streamer_setup_fields", "_generate_stream_setup_vals")):
            ff, vf = repo.find_method(c, fm), repo.find_method(c, vm)
            if ff is None or vf is None:
                continue
            if kind == "xdma" and "XDMA" not in c.name.upper():
                continue  # only the xDMA accelerator uses the DmaExt system type (frozen: default_streamer of each class)
            if (ff.key, vf.key) in done:
                continue
            done.add((ff.key, vf.key))
            chk.analysed(ff.key, vf.key)
            it = ShapeInterp(repo, c, vocab=VOCAB)
            fs, vs = it.function(ff), it.function(vf)
            if len(fs) != 1 or len(vs) != 1:
                raise AnalysisError(f"{ff.where}/{vf.where}: expected one return shape each, got {len(fs)}/{len(vs)}")
            f_, v_ = normalise(fs[0]), normalise(vs[0])
            d = diff(f_, v_)
            _report(chk, "C08.streamer-shape", f"{vf.key}:{kind}", vf.where, d, f"{kind} layout: fields and values have the shape {flat_text(f_)[:200]}")
            # labels on aligned pairs
            if not [x for x in d if x[0] == "mismatch"] or True:
                for x, y, p in _label_pairs(f_, v_):
                    stem = next((s for s in STEM_PROVENANCE if s in x.label), None)
                    prov = set(re.findall(r"val:([\w,]*)", y.label))
                    toks = {t for pr in prov for t in pr.split(",") if t and t != "const"}
                    if stem is not None:
                        okl = bool(toks) and toks <= STEM_PROVENANCE[stem]
                        chk.result(okl, "C08.labels", f"{vf.key}:{kind}:{stem}", vf.where, f"`{x.label}` receives values from {sorted(toks)}",
                                   f"field segment `{x.label}` receives values computed from {sorted(toks) or 'constants'}; expected {sorted(STEM_PROVENANCE[stem])} "
                                   "(two segments swapped without changing the count)")
                    elif toks & {"upper_bounds", "temporal_strides", "spatial_strides"}:
                        chk.bad("C08.labels", f"{vf.key}:{kind}:{_lab(x)}", vf.where, f"field `{x.label}` receives a value computed from {sorted(toks)}")


def _label_pairs(fields, values):
    """aligned One/One pairs, descending through equal Rep/Opt and through data Opts of the values"""
    fa, va = list(fields), list(values)
    i = j = 0
    while i < len(fa) and j < len(va):
        x, y = fa[i], va[j]
        if isinstance(y, Opt) and not CONFIG_COND.match(y.cond):
            take = max(len(y.then), len(y.els))
            yield from _label_pairs(fa[i : i + len(y.then)], y.then)
            yield from _label_pairs(fa[i : i + len(y.els)], y.els)
            i += take
            j += 1
            continue
        if isinstance(x, One) and isinstance(y, One):
            yield x, y, ""
        elif isinstance(x, Rep) and isinstance(y, Rep):
            yield from _label_pairs(x.body, y.body)
        elif isinstance(x, Opt) and isinstance(y, Opt):
            yield from _label_pairs(x.then, y.then)
            yield from _label_pairs(x.els, y.els)
        i += 1
        j += 1


# --------------------------------------------------------------------------- accelerator tails
def _fields_expr(repo: Repo, c: Cls, attr: str) -> tuple[ast.expr, Func | None] | None:
    for k in repo.mro(c):
        init = k.methods.get("__init__")
        if init is not None:
            for n in ast.walk(init.node):
                if isinstance(n, ast.Assign) and isinstance(n.targets[0], ast.Attribute) and ast.unparse(n.targets[0]) == f"self.{attr}":
                    return n.value, init
        if attr in k.consts:
            return k.consts[attr], None
    return None


def _default_streamers(repo: Repo, c: Cls) -> list[dict] | None:
    """constant-fold the module's `default_streamer = StreamerConfiguration([Streamer(..), ..])` literal"""
    e = c.module.consts.get("default_streamer")
    if not (isinstance(e, ast.Call) and callee_name(e) == "StreamerConfiguration" and e.args and isinstance(e.args[0], (ast.List, ast.Tuple))):
        return None
    out = []
    for s in e.args[0].elts:
        if not (isinstance(s, ast.Call) and callee_name(s) == "Streamer"):
            return None
        kw = {k.arg: k.value for k in s.keywords}
        pos = list(s.args)
        temporal = kw.get("temporal_dims", pos[1] if len(pos) > 1 else None)
        spatial = kw.get("spatial_dims", pos[2] if len(pos) > 2 else None)
        opts = kw.get("opts", pos[3] if len(pos) > 3 else None)
        if not isinstance(temporal, (ast.List, ast.Tuple)) or not isinstance(spatial, (ast.List, ast.Tuple)):
            return None
        on = [callee_name(o) for o in opts.elts] if isinstance(opts, (ast.List, ast.Tuple)) else []
        out.append({"temporal_dims": len(temporal.elts), "spatial_dims": len(spatial.elts), "opts": on})
    return out


def instantiate(seq, streamers: list[dict], cur: dict | None = None) -> int | None:
    """number of elements of a symbolic sequence under a concrete streamer configuration (None = not countable)"""
    n = 0
    for it in seq:
        if isinstance(it, One):
            n += 1
        elif isinstance(it, Rep):
            if it.dom.endswith(".streamers"):
                for s in streamers:
                    k = instantiate(it.body, streamers, s)
                    if k is None:
                        return None
                    n += k
            elif cur is not None and re.fullmatch(r"\$\d+\.(temporal_dims|spatial_dims)", it.dom):
                k = instantiate(it.body, streamers, cur)
                if k is None:
                    return None
                n += cur[it.dom.split(".")[1]] * k
            else:
                return None
        elif isinstance(it, Opt):
            m = re.fullmatch(r"Has\((\w+)\)@\$\d+\.opts", it.cond)
            if m is None or cur is None:
                return None
            k = instantiate(it.then if m.group(1) in cur["opts"] else it.els, streamers, cur)
            if k is None:
                return None
            n += k
        else:
            return None
    return n


def tails(repo: Repo, chk: Check) -> None:
    chk.rule(
        "C08.tail-shape",
        "per accelerator: the declared field tuple and every generated value list reaching accfg.SetupOp have the same shape "
        "(streamer part spliced, kernel-specific tail element by element); hard-wired value lists are compared after instantiating "
        "the field shape with the module's own default streamer configuration",
        floor=4,
    )
    # opportunistic by nature: the rule only speaks where the author named a variable after a field, so no floor (a rename removes instances, not correctness)
    chk.rule("C08.stated-belief", "a value held in a variable named exactly like a declared field sits at that field's position", floor=0)
    chk.rule("C08.launch", "the number of launch values equals the number of launch fields", floor=3)
    acc_base = repo.cls("snaxc/accelerators/accelerator.py", "Accelerator")
    n_acc = 0
    for c in repo.subclasses(acc_base):
        if any("ABC" in ast.unparse(b) for b in c.node.bases) or repo.is_abstract(c):
            continue
        conv = repo.find_method(c, "convert_to_acc_ops")
        fe = _fields_expr(repo, c, "fields")
        if conv is None or fe is None or isinstance(fe[0], ast.Dict):
            continue  # RoCC accelerators declare (instruction, operand) dictionaries: out of this rule (see C04.rocc-pairs)
        n_acc += 1
        chk.analysed(conv.key)
        it = ShapeInterp(repo, c, vocab=VOCAB)
        fr = _Fields(it, fe[1] or conv)
        fshape = normalise(tuple(fr.seq(fe[0])))
        lits = [x.label.strip("'\"") for x in _ones(fshape) if "{" not in x.label]
        if len(fshape) == 1 and isinstance(fshape[0], Splice):
            continue  # fields are exactly the streamer fields: covered by C08.streamer-shape
        # value builders called in convert_to_acc_ops
        builders = []
        for n in ast.walk(conv.node):
            if isinstance(n, ast.Call) and isinstance(n.func, ast.Attribute) and isinstance(n.func.value, ast.Name) and n.func.value.id == "self" and "setup_vals" in n.func.attr:
                b = repo.find_method(c, n.func.attr)
                if b is not None and b not in builders:
                    builders.append(b)
        if not builders:
            raise AnalysisError(f"{conv.where}: no value builder call found")
        streamer_vals = None
        sv = repo.find_method(c, "_generate_streamer_setup_vals")
        if sv is not None:
            streamer_vals = normalise(ShapeInterp(repo, c, vocab=VOCAB).function(sv)[0])
        for b in builders:
            chk.analysed(b.key)
            shapes = ShapeInterp(repo, c, vocab=VOCAB).function(b)
            if not shapes:
                raise AnalysisError(f"{b.where}: no returned sequence")
            for k, vs in enumerate(shapes):
                vshape = normalise(vs)
                key = f"{b.key}" + (f"#ret{k}" if len(shapes) > 1 else "")
                fsp, vsp = _strip_streamer(fshape, vshape, streamer_vals)
                if fsp is None:
                    # hard-wired list (no streamer splice in the values): compare counts under the default configuration
                    st = _default_streamers(repo, c)
                    fields_sym = tuple(_inline_streamer_fields(repo, c, fshape))
                    nf = instantiate(fields_sym, st) if st is not None else None
                    nv = instantiate(vshape, st or [])
                    if nf is None or nv is None:
                        chk.undecided.append(f"{key}: hard-wired value list not countable (fields {nf}, values {nv})")
                        chk.ok("C08.tail-shape", key + ":hard-wired", b.where, "hard-wired list: not countable, undecided", nontrivial=False)
                    else:
                        chk.result(nf == nv, "C08.tail-shape", key + ":hard-wired", b.where,
                                   f"hard-wired value list has {nv} values for {nf} fields under the default streamer configuration",
                                   f"hard-wired value list has {nv} values but the default configuration declares {nf} fields")
                    tail_pairs = list(zip(_ones(fshape)[-len(lits):], _ones(vshape)[-len(lits):])) if lits else []
                else:
                    d = diff(fsp, vsp)
                    _report(chk, "C08.tail-shape", key, b.where, d, f"tail shape {flat_text(fsp)[:160]}")
                    tail_pairs = [(x, y) for x, y, _ in _label_pairs(fsp, vsp)]
                # stated belief
                for x, y in tail_pairs:
                    m = re.search(r"name=(\w+)", y.label)
                    frm = re.search(r"from=(\w+)", y.label)
                    nm = (frm.group(1) if frm else None) or (m.group(1) if m else None)
                    if nm is None:
                        continue
                    canon = {l.lower(): l for l in lits}
                    if nm.lower() in canon:
                        chk.result(canon[nm.lower()] == x.label.strip("'\""), "C08.stated-belief", f"{key}:{nm}", b.where, f"value `{nm}` is at the position of field `{x.label}`",
                                   f"the value held in `{nm}` is generated at the position of field `{x.label}`, not of field `{canon[nm.lower()]}`")
        # launch
        lf = _fields_expr(repo, c, "launch_fields")
        if lf is not None:
            lshape = tuple(_Fields(ShapeInterp(repo, c), lf[1] or conv).seq(lf[0]))
            lshape = tuple(_inline_launch(repo, c, lshape))
            nlf = instantiate(lshape, [])
            for n in ast.walk(conv.node):
                if isinstance(n, ast.Call) and callee_name(n) == "LaunchOp" and n.args:
                    a0 = n.args[0]
                    nlv = None
                    if isinstance(a0, ast.List) and not any(isinstance(e, ast.Starred) for e in a0.elts):
                        nlv = len(a0.elts)
                    elif isinstance(a0, ast.ListComp):
                        src = ast.unparse(a0.generators[0].iter)
                        for m in ast.walk(conv.node):
                            if isinstance(m, ast.Assign) and isinstance(m.targets[0], ast.Name) and m.targets[0].id == src and isinstance(m.value, ast.Call) and isinstance(m.value.func, ast.Attribute):
                                lb = repo.find_method(c, m.value.func.attr)
                                if lb is not None:
                                    ls = ShapeInterp(repo, c).function(lb)
                                    nlv = instantiate(ls[0], []) if ls else None
                    if nlf is None or nlv is None:
                        chk.undecided.append(f"{conv.key}: launch value count not countable ({nlv} vs {nlf})")
                    else:
                        chk.result(nlf == nlv, "C08.launch", f"{conv.key}:launch", f"{conv.module.relpath}:{n.lineno}", f"{nlv} launch values for {nlf} launch fields",
                                   f"{nlv} launch values are generated for {nlf} launch fields")
    if n_acc < 4:
        raise AnalysisError(f"only {n_acc} CSR accelerators with field tuples found")


class _Fields:
    """shape of a field tuple expression written in __init__ / at class level"""

    def __init__(self, it: ShapeInterp, ctx: Func):
        from sa.shape import _Frame

        self.fr = _Frame(it, ctx, [])

    def seq(self, e: ast.expr) -> list:
        return self.fr.seq_of(e, {}, {}, {}, 0)


def _ones(seq) -> list[One]:
    out = []
    for it in seq:
        if isinstance(it, One):
            out.append(it)
        elif isinstance(it, Rep):
            out += _ones(it.body)
        elif isinstance(it, Opt):
            out += _ones(it.then) + _ones(it.els)
    return out


def _strip_streamer(fshape, vshape, streamer_vals):
    """remove the streamer part from both: fields start with Splice(self.streamer_setup_fields), values with the inlined
    streamer value shape"""
    if not fshape or not isinstance(fshape[0], Splice) or "streamer_setup_fields" not in fshape[0].ref:
        return (fshape, vshape) if not any(isinstance(x, Splice) for x in fshape) and streamer_vals is None else (None, None)
    if streamer_vals is None:
        return None, None
    k = len(streamer_vals)
    if skeleton(vshape[:k]) != skeleton(streamer_vals):
        return None, None
    return tuple(fshape[1:]), tuple(vshape[k:])


def _inline_streamer_fields(repo: Repo, c: Cls, fshape):
    for it in fshape:
        if isinstance(it, Splice) and "streamer_setup_fields" in it.ref:
            f = repo.find_method(c, "get_streamer_setup_fields")
            if f is None:
                yield Unk(it.ref)
            else:
                yield from normalise(ShapeInterp(repo, c).function(f)[0])
        else:
            yield it


def _inline_launch(repo: Repo, c: Cls, lshape):
    for it in lshape:
        if isinstance(it, Splice) and "streamer_launch_fields" in it.ref:
            name = "get_xdma_streamer_launch_fields" if "XDMA" in c.name.upper() else "get_streamer_launch_fields"
            f = repo.find_method(c, name)
            if f is None:
                yield Unk(it.ref)
            else:
                yield from ShapeInterp(repo, c).function(f)[0]
        else:
            yield it


# --------------------------------------------------------------------------- padding / reuse collapse
def _stride_zero_fact(site, svars: set[str]) -> bool:
    """a must-fact `<temporal stride of this dimension> == 0` (the stride is recognised by provenance or as an element variable)"""
    for f in site.facts:
        if f.kind != "atom":
            continue
        m = norm.any_match(["$e == 0", "0 == $e"], f.expr)
        if m is None:
            continue
        e = m["e"]
        if norm.contains(e, T("$p.temporal_strides")) or (isinstance(e, ast.Name) and e.id in svars):
            return True
    return False


def padding(repo: Repo, chk: Check) -> None:
    chk.rule(
        "C08.padding",
        "bounds are padded with IntAttr(1) and strides with IntAttr(0) up to streamer.temporal_dim before being indexed by the "
        "temporal-dimension loop; the reuse collapse `bound = 1` is guarded by flag == Reuse and stride == 0",
        floor=6,
    )
    for path, qual in ((SNAX, "SNAXStreamer._generate_streamer_setup_vals"), (XDMA, "SNAXXDMAAccelerator._generate_stream_setup_vals")):
        f, fl = flow_of(repo, chk, path, qual)
        # padded sequences, identified by provenance (not by name): kind "bounds" if the sequence derives from
        # `.upper_bounds`, "strides" if from `.temporal_strides`
        pads: dict[str, tuple] = {}
        for s in fl.stmts(ast.Assign):
            t = s.node.targets[0]
            if isinstance(t, ast.Name) and isinstance(s.node.value, ast.BinOp) and isinstance(s.node.value.op, ast.Add):
                m = norm.match(T(f"{t.id} + (IntAttr($c),) * ($st.temporal_dim - len({t.id}))"), s.node.value)
                if m is not None and isinstance(m["c"], ast.Constant):
                    cone = fl.cone(ast.Name(t.id, ast.Load()), s, inline=0)
                    kind = "bounds" if norm.contains(cone, T("$p.upper_bounds")) else "strides" if norm.contains(cone, T("$p.temporal_strides")) else None
                    if kind:
                        pads[t.id] = (m["c"].value, s, kind)
        by_kind = {k: [(n, v) for n, v in pads.items() if v[2] == k] for k in ("bounds", "strides")}
        for kind, want, label in (("bounds", 1, "upper_bounds"), ("strides", 0, "temporal_strides")):
            got = by_kind[kind][0][1] if by_kind[kind] else None
            chk.result(got is not None and got[0] == want, "C08.padding", f"{f.key}:pad-{label}", got[1].where() if got else f.where,
                       f"the {kind} sequence is padded with {want} up to the streamer's temporal dimensionality",
                       f"the sequence taken from .{label} is not padded with IntAttr({want}) up to streamer.temporal_dim (found {got[0] if got else None}): unused hardware dimensions get a wrong "
                       f"{'bound' if want == 1 else 'stride'}")
        bound_seqs = {n for n, _ in by_kind["bounds"]}
        stride_seqs = {n for n, _ in by_kind["strides"]}
        # element variables: `v = <seq>[dim].data` inside a temporal loop
        elem_kind: dict[str, str] = {}
        loads = []
        for s in fl.stmts(ast.Assign):
            t = s.node.targets[0]
            m = norm.match(T("$seq[$i].data"), s.node.value) if isinstance(t, ast.Name) else None
            if m is not None and isinstance(m["seq"], ast.Name) and s.loops:
                loads.append((s, t.id, m["seq"].id))
                if m["seq"].id in bound_seqs:
                    elem_kind[t.id] = "bounds"
                elif m["seq"].id in stride_seqs:
                    elem_kind[t.id] = "strides"
        bvars = {n for n, k in elem_kind.items() if k == "bounds"}
        svars = {n for n, k in elem_kind.items() if k == "strides"}
        col = [s for s in fl.stmts(ast.Assign) if s.reachable and isinstance(s.node.targets[0], ast.Name) and s.node.targets[0].id in bvars and isinstance(s.node.value, ast.Constant)]
        okc = bool(col) and all(
            s.node.value.value == 1 and has_fact(s, ["$f == StreamerFlag.Reuse"]) and _stride_zero_fact(s, svars) for s in col)
        # loop variables drawn from the padded sequences by zip: `for flag, b, s in zip(dims, bounds, strides)`
        zip_kind: dict[str, str] = {}
        for n_ in ast.walk(f.node):
            if isinstance(n_, ast.For):
                t_, it_ = n_.target, n_.iter
                if isinstance(it_, ast.Call) and callee_name(it_) == "enumerate" and it_.args and isinstance(t_, ast.Tuple) and len(t_.elts) == 2:
                    t_, it_ = t_.elts[1], it_.args[0]
                if isinstance(it_, ast.Call) and callee_name(it_) == "zip" and isinstance(t_, ast.Tuple) and len(t_.elts) == len(it_.args):
                    for tv_, a_ in zip(t_.elts, it_.args):
                        if isinstance(tv_, ast.Name) and isinstance(a_, ast.Name):
                            if a_.id in bound_seqs:
                                zip_kind[tv_.id] = "bounds"
                            elif a_.id in stride_seqs:
                                zip_kind[tv_.id] = "strides"
        if not col:
            # the collapse spelled as a conditional expression: `1 if <reuse and stride == 0> else <bound>`
            okc_all: list[bool] = []
            first_site = None
            for s in fl.sites:
                if not s.reachable or s.node is not s.stmt or not isinstance(s.stmt, (ast.Assign, ast.AnnAssign, ast.AugAssign, ast.Expr, ast.Return)):
                    continue
                for ie in [x for x in ast.walk(s.stmt) if isinstance(x, ast.IfExp)]:
                    for const, other, pol in ((ie.body, ie.orelse, True), (ie.orelse, ie.body, False)):
                        if not isinstance(const, ast.Constant):
                            continue
                        src = s.expand(other)
                        is_bound = norm.contains(src, T("$p.upper_bounds")) or any(isinstance(x, ast.Name) and (x.id in bvars or zip_kind.get(x.id) == "bounds") for x in ast.walk(src))
                        if not is_bound:
                            continue
                        first_site = first_site or s
                        test_ = s.expand(ie.test)
                        atoms_ = [norm.canon(a_) for a_ in norm.atoms(test_ if pol else norm.negate(test_), True)]
                        reuse = any(norm.match(T("$f == StreamerFlag.Reuse"), a_) is not None for a_ in atoms_)
                        zero = False
                        for a_ in atoms_:
                            m_ = norm.any_match(["$e == 0"], a_)
                            if m_ is not None and (norm.contains(m_["e"], T("$p.temporal_strides")) or any(
                                    isinstance(x, ast.Name) and (x.id in svars or zip_kind.get(x.id) == "strides") for x in ast.walk(m_["e"]))):
                                zero = True
                        okc_all.append(const.value == 1 and reuse and zero)
            if okc_all:
                okc = all(okc_all)
                col = [first_site]
            else:
                raise AnalysisError(f"{f.where}: the reuse collapse of a temporal bound was not found in a recognised form")
        chk.result(okc, "C08.padding", f"{f.key}:reuse-collapse", col[0].where() if col else f.where, "a bound is collapsed to 1 only for a Reuse dimension with stride 0",
                   "the reuse collapse `bound = 1` is not guarded by `flag == Reuse and stride == 0`", col[0].fact_texts if col else [])
        # inside loops over the streamer's temporal dimensions only padded sequences are indexed
        oki = True
        n_idx = 0
        for s, var, seq in loads:
            lp = [l for l in s.loops if isinstance(l, ast.For)]
            if not lp or "temporal_dims" not in ast.unparse(lp[-1].iter):
                continue
            n_idx += 1
            oki = oki and seq in pads
        for n_ in ast.walk(f.node):
            # `zip(streamer.temporal_dims, bounds, strides)` reads the sequences position by position, like indexing
            if isinstance(n_, ast.Call) and callee_name(n_) == "zip" and any("temporal_dims" in ast.unparse(a_) for a_ in n_.args):
                site_ = next((x for x in fl.sites if x.node is n_), None)
                for a_ in n_.args:
                    if "temporal_dims" in ast.unparse(a_):
                        continue
                    cone_ = fl.cone(a_, site_, inline=0)
                    if norm.contains(cone_, T("$p.upper_bounds")) or norm.contains(cone_, T("$p.temporal_strides")):
                        n_idx += 1
                        oki = oki and isinstance(a_, ast.Name) and a_.id in pads
        chk.result(oki and n_idx > 0, "C08.padding", f"{f.key}:indexing", f.where, "the temporal loops index the padded bound / stride sequences",
                   "a temporal-dimension loop reads bounds/strides from an unpadded sequence")


# --------------------------------------------------------------------------- extension tables
def extension_tables(repo: Repo, chk: Check) -> None:
    chk.rule("C08.extension-tables", "for every concrete StreamerExtension: the literal list returned by get_csr_values has csr_length entries", floor=5)
    base = repo.cls("snaxc/accelerators/streamers/extensions/streamer_extension.py", "StreamerExtension")
    for c in repo.subclasses(base):
        if any("ABC" in ast.unparse(b) for b in c.node.bases):
            continue
        used = any(t.endswith("." + c.name) or t == c.module.dotted for m in repo.modules.values() if m is not c.module for t in m.imports.values())
        if not used:
            continue
        ln = repo.find_const(c, "csr_length")
        g = repo.find_method(c, "get_csr_values")
        if ln is None or g is None or not isinstance(ln[1], ast.Constant):
            chk.undecided.append(f"{c.key}: csr_length / get_csr_values not literal")
            continue
        chk.analysed(g.key)
        rets = [n for n in ast.walk(g.node) if isinstance(n, ast.Return) and n.value is not None]
        for r in rets:
            if isinstance(r.value, (ast.List, ast.Tuple)) and not any(isinstance(e, ast.Starred) for e in r.value.elts):
                chk.result(len(r.value.elts) == ln[1].value, "C08.extension-tables", f"{c.key}:csr-length", f"{g.module.relpath}:{r.lineno}",
                           f"{c.name}: {len(r.value.elts)} CSR values for csr_length = {ln[1].value}",
                           f"{c.name}.get_csr_values returns {len(r.value.elts)} values but csr_length = {ln[1].value}: the following xDMA fields are shifted")
            else:
                chk.undecided.append(f"{c.key}: get_csr_values returns a non-literal sequence")


# --------------------------------------------------------------------------- gemmx replication guards
def replication_guards(repo: Repo, chk: Check) -> None:
    f, fl = flow_of(repo, chk, "snaxc/accelerators/snax_gemmx.py", "SNAXGEMMXAccelerator._generate_setup_vals")
    chk.rule("C08.replication", "a per-tensor value list is replicated to n entries only under `len(that very list) == 1`", floor=2)
    n = 0
    for s in fl.stmts(ast.Assign):
        t = s.node.targets[0]
        if not (isinstance(t, ast.Name) and s.reachable):
            continue
        m = norm.match(T("($x[0],) * self.n"), s.node.value)
        if m is None:
            continue
        n += 1
        src = s.expand(m["x"])
        ok = bool(has_fact(s, ["len($l) == 1"], {"l": src}))
        chk.result(ok, "C08.replication", f"{f.key}:{t.id}", s.where(), f"{t.id} replicated only when it has exactly one entry",
                   f"`{t.id}` is replaced by n copies of its first entry on a path where `len({ast.unparse(m['x'])}) == 1` is not established (the guard "
                   "tests another list): per-channel values are silently overwritten by the first one", s.fact_texts)
    if n == 0:
        raise AnalysisError(f"{f.where}: replication statements not found")


# --------------------------------------------------------------------------- four shift values per register: one placement everywhere
class _Bits:
    """a set of (token, bit offset) placements inside one register"""

    def __init__(self, items=()):
        self.items = frozenset(items)

    def __repr__(self) -> str:
        return "|".join(f"{t}<<{o}" for t, o in sorted(self.items))


def _bits_hook(op, a, b):
    if isinstance(a, _Bits) and isinstance(op, ast.LShift) and isinstance(b, int):
        return _Bits((t, o + b) for t, o in a.items)
    if isinstance(op, (ast.BitOr, ast.Add)) and (isinstance(a, _Bits) or isinstance(b, _Bits)):
        ia = a.items if isinstance(a, _Bits) else (frozenset() if a == 0 else None)
        ib = b.items if isinstance(b, _Bits) else (frozenset() if b == 0 else None)
        if ia is None or ib is None:
            return NotImplemented
        return _Bits(ia | ib)
    if isinstance(a, _Bits) and isinstance(op, ast.BitAnd):
        return a  # masking to the field width keeps the placement
    return NotImplemented


def _unwrap(v):
    from sa.absexec import Obj

    while isinstance(v, Obj) and v.cls in ("ConstantOp", "Packed"):
        v = v.f.get("value")
    return v


def shift_packing(repo: Repo, chk: Check) -> None:
    from sa.absexec import AbsExec, AbsRaise, Obj, Tok, Undecided

    chk.rule(
        "C08.shift-packing",
        "every loop in the gemmx accelerator that packs four per-channel values into one register (`for .. in range(0, len(xs), 4)`) places "
        "channel 4r+j at the same bit offset of register r: the setup path and the per-channel launch path are siblings and must agree "
        "(evaluated abstractly on channel tokens; which placement the hardware wants is not decided)",
        floor=2,
    )
    c = repo.cls(GEMMX, "SNAXGEMMXAccelerator")
    placements = []
    for m in c.methods.values():
        for lp in [n for n in ast.walk(m.node) if isinstance(n, ast.For)]:
            mm = norm.match(T("range(0, len($xs), 4)"), lp.iter)
            if mm is None or not isinstance(mm["xs"], ast.Name):
                continue
            xs = mm["xs"].id

            def packed(values, offsets, dtype=32):
                vals = [_unwrap(v) for v in values]
                offs = [_unwrap(o) for o in offsets]
                acc = _Bits()
                for v, o in zip(vals, offs, strict=True):
                    if not isinstance(v, _Bits) or not isinstance(o, int):
                        raise Undecided("pack_bitlist on values the placement domain cannot follow")
                    acc = _Bits(acc.items | {(t, x + o) for t, x in v.items})
                return [Obj("Packed", {"value": acc})]

            models = {
                "pack_bitlist": packed,
                "from_int_and_width": lambda v, t=None: Obj("ConstantOp", {"value": v}),
                "ConstantOp": lambda v, *a: Obj("ConstantOp", {"value": v}),
            }
            attrs = {("ConstantOp", "result"): lambda o: _unwrap(o), ("ConstantOp", "results"): lambda o: [_unwrap(o)],
                     ("Packed", "results"): lambda o: [_unwrap(o)], ("Packed", "result"): lambda o: _unwrap(o)}
            ex = AbsExec(models, attrs=attrs, where=GEMMX, num_hook=_bits_hook)
            toks = [_Bits({(f"ch{k}", 0)}) for k in range(8)]
            env: dict = {xs: list(toks), "self": Obj("Self", {"n": 8})}
            # lists the loop appends to start empty
            for n_ in ast.walk(lp):
                if isinstance(n_, ast.Call) and isinstance(n_.func, ast.Attribute) and n_.func.attr in ("append", "extend") and isinstance(n_.func.value, ast.Name) and n_.func.value.id != xs:
                    env.setdefault(n_.func.value.id, [])
            key = f"{m.key}:pack4@{xs}"
            where = f"{GEMMX}:{lp.lineno}"
            try:
                ex.run([lp], env)
            except (Undecided, AbsRaise) as e:
                chk.undecided.append(f"C08.shift-packing {key}: {e}")
                continue
            found = []

            def collect(v):
                v = _unwrap(v)
                if isinstance(v, _Bits) and len(v.items) >= 2:
                    found.append(v)
                elif isinstance(v, (list, tuple)):
                    for x in v:
                        collect(x)

            for name, val in env.items():
                if name != xs:
                    collect(val)
            for _, args, kw in ex.calls:
                collect(list(args))
            regs = {}
            for b in found:
                chans = sorted(int(t[2:]) for t, _ in b.items)
                r = chans[0] // 4
                if any(ch // 4 != r for ch in chans):
                    regs[("mixed", tuple(chans))] = b
                    continue
                regs[r] = tuple(sorted((int(t[2:]) % 4, o) for t, o in b.items))
            if not regs:
                chk.undecided.append(f"C08.shift-packing {key}: no packed register value found")
                continue
            maps = {v for k, v in regs.items() if not (isinstance(k, tuple) and k[0] == "mixed")}
            mixed = [k for k in regs if isinstance(k, tuple) and k[0] == "mixed"]
            chk.result(len(maps) == 1 and not mixed, "C08.shift-packing", key + ":uniform", where,
                       f"every register of this loop uses the placement {sorted(maps)[0] if maps else None} (channel mod 4 -> bit offset)",
                       f"registers of one packing loop differ in placement or mix register groups: {sorted(maps)} {mixed}")
            if len(maps) == 1:
                placements.append((key, where, next(iter(maps))))
    if len(placements) < 2:
        raise AnalysisError(f"only {len(placements)} four-per-register packing loop(s) could be evaluated in {GEMMX} (2 confirmed by reading)")
    ref = Counter(p for _, _, p in placements).most_common(1)[0][0]
    agree = all(p == ref for _, _, p in placements)
    for key, where, pl in placements:
        others = [f"{k.split(':')[-2] if ':' in k else k} {p}" for k, _, p in placements if k != key]
        chk.result(agree, "C08.shift-packing", key + ":sibling", where,
                   f"placement {pl} agrees with the other packing loop(s)",
                   f"this loop places (channel mod 4 -> bit offset) as {pl} but the sibling loop(s) use {sorted({p for k, _, p in placements if k != key})}: the setup path and the "
                   "per-channel launch path program the same registers with different byte orders")

"""C07 — assumed accelerator state is a subset of the real state (DESIGN.md section 5, C07).

Soundness of a dataflow analysis, decided by information-flow necessity (F3): a transfer function
that does not read what its soundness depends on cannot be sound.
"""

from __future__ import annotations

import ast

from sa import norm
from sa.errors import AnalysisError
from sa.flow import Flow, Site
from sa.model import Func, Repo
from sa.norm import T
from sa.report import Check

from .common import callee_name, depends_on, flow_of, has_fact, subexprs

TRACE = "snaxc/inference/trace_acc_state.py"
HELPERS = "snaxc/inference/helpers.py"
WEAVE = "snaxc/transforms/convert_linalg_to_accfg.py"


def _is_empty_dict(e: ast.AST | None) -> bool:
    if e is None:
        return False
    if isinstance(e, ast.Dict) and not e.keys:
        return True
    return norm.match(T("dict()"), e) is not None


def _case_sites(fl: Flow, pred) -> list[Site]:
    """return sites whose facts satisfy pred"""
    return [s for s in fl.stmts(ast.Return) if s.reachable and pred(s)]


def run(repo: Repo, chk: Check) -> None:
    chk.explanation = (
        "Information-flow necessity (F3) on the accelerator-state dataflow: what infer_state_of returns for a "
        "loop-carried block argument must depend on the loop body (or be empty) and be guarded against unknown "
        "effects; the state after a loop must join the yielded and the initial state; the if case must intersect "
        "all regions; has_accfg_effects must flag calls, honour the effects attribute with the right polarity and "
        "recurse over all nested ops; every branch of the state-weaving op-kind chain that an op with accfg effects "
        "can take must be able to shrink the tracked state on every path. Decides these necessary conditions, not "
        "run-time register contents."
    )
    infer_state(repo, chk)
    intersection(repo, chk)
    effects(repo, chk)
    weave(repo, chk)
    if_delta(repo, chk)
    from . import c01

    sub = Check("C01", chk.tier, chk.repo_root)
    c01.all_setups(repo, sub)
    chk.rule("C07.all-setups", "all_setup_ops_in_region (consumed by the loop-head case) sees every nested setup", floor=2)
    for i in sub.instances:
        i.rule = "C07.all-setups"
        chk.instances.append(i)
    chk.functions |= sub.functions


# --------------------------------------------------------------------------- infer_state_of
def infer_state(repo: Repo, chk: Check) -> None:
    f, fl = flow_of(repo, chk, TRACE, "infer_state_of")
    sv = f.param(0)
    owner = f"{sv}.owner"
    chk.rule(
        "C07.loop-head",
        "state assumed for a loop-carried block argument: empty, or dependent on the loop body (setups in the "
        "body / yielded state) AND only under `not has_accfg_effects(loop)`",
        floor=1,
    )
    chk.rule(
        "C07.loop-result",
        "state after a loop: empty, or the meet (state_intersection / equality-filtered comprehension) of the "
        "yielded state and the initial state (zero-trip path)",
        floor=1,
    )
    chk.rule("C07.if-merge", "state after an scf.if is the intersection over all regions", floor=1)
    chk.rule(
        "C07.setup-chain",
        "state after a setup: own parameters when there is no in_state, else inferred in_state updated by own parameters",
        floor=2,
    )
    returns = [s for s in fl.stmts(ast.Return) if s.reachable]
    if not returns:
        raise AnalysisError(f"{f.where}: no return statements")

    def is_case(s: Site, *templates: str) -> bool:
        return bool(has_fact(s, list(templates), {"o": owner}))

    n_head = n_res = n_if = n_setup = 0
    for s in returns:
        v = s.node.value
        cone = fl.cone(v, s) if v is not None else None
        # ---- loop head: owner is a Block whose parent is an scf.ForOp
        if is_case(s, "isinstance($o.parent_op(), scf.ForOp)", "isinstance($o.parent_op(), ForOp)"):
            n_head += 1
            key = f"{f.key}:case Block/scf.ForOp"
            if _is_empty_dict(v):
                chk.ok("C07.loop-head", key + ":empty", s.where(), "returns the empty state")
                continue
            loop = f"{owner}.parent_op()"
            # an exhaustive scan of what the body MAY write (every setup op in it); the state inferred at the yield is a must-state
            # (an intersection over branches) and says nothing about a field written on one path only
            body_dep = cone is not None and depends_on(
                cone, "all_setup_ops_in_region($l.body, $_)", "all_setup_ops_in_region($l, $_)", "$l.walk()", "$l.walk($_)", "$l.body.walk()", "$l.body.walk($_)",
                "$l.regions", binds={"l": loop}
            )
            guarded = bool(
                has_fact(s, ["not has_accfg_effects($l)", "not has_accfg_effects($l.body)"], {"l": loop})
            )
            chk.result(
                body_dep,
                "C07.loop-head",
                key,
                s.where(),
                "loop-head state depends on the loop body (back edge)",
                "the state assumed at the loop head does not depend on a scan of every setup in the loop body: a field written differently "
                "inside the loop (possibly on one path only, which a must-state inferred at the yield does not show) is still assumed on every later iteration",
                [ast.unparse(cone)[:300]] if cone is not None else [],
            )
            # the meet over the body must be per write: a dictionary that accumulates the body's setups with
            # update / item assignment keeps only the last write per field (in walk order, ignoring branches)
            lossy = []
            if cone is not None:
                for pat in ("__mut_update__($a, $b)", "__mut_setitem__($a, $k, $b)", "__store__($b, $k)"):
                    for sub, m in subexprs(cone, pat):
                        if depends_on(m["b"], "all_setup_ops_in_region($_, $_)", "$_.walk()", "$l.body", binds={"l": loop}) and not depends_on(
                            m["b"], "set($_)", "$_.add($_)"
                        ):
                            lossy.append(ast.unparse(norm.primary(sub))[:80])
            chk.result(
                not lossy,
                "C07.loop-head",
                key + ":per-write-meet",
                s.where(),
                "every setup write of the body is compared on its own (no last-writer-wins accumulation)",
                "the body's setups are folded into one dictionary by update/item assignment before being compared with the "
                f"initial state ({lossy[:2]}): only the last write per field in walk order counts, a differing write on another "
                "path through the body is forgotten",
            )
            chk.result(
                guarded,
                "C07.loop-head",
                key + ":effects",
                s.where(),
                "non-empty loop-head state only under `not has_accfg_effects(loop)`",
                "a non-empty loop-head state is returned although the loop body may contain an op with unknown accfg "
                "effects (the state after such an op reaches the next iteration)",
                s.fact_texts,
            )
        # ---- loop result
        elif is_case(s, "isinstance($o, scf.ForOp)", "isinstance($o, ForOp)"):
            n_res += 1
            key = f"{f.key}:case scf.ForOp"
            if _is_empty_dict(v):
                chk.ok("C07.loop-result", key + ":empty", s.where(), "returns the empty state")
                continue
            assert cone is not None
            ok = False
            for _, m in subexprs(cone, "state_intersection($a, $b)"):
                a, b = m["a"], m["b"]
                y = lambda x: depends_on(x, "$_.last_op", "$_.body", "$_.get_terminator()") or "Yield" in ast.unparse(x)
                i = lambda x: depends_on(x, "$o.iter_args", "$o.operands", "$o.iter_args[$_]", binds={"o": owner})
                if (y(a) and i(b) and not i(a)) or (y(b) and i(a) and not i(b)):
                    ok = True
            chk.result(
                ok,
                "C07.loop-result",
                key,
                s.where(),
                "state after the loop = state_intersection(yielded state, initial state)",
                "the state after a loop is not the meet of the yielded state and the initial state: the zero-trip "
                f"path (or the loop body) is ignored; returned: {ast.unparse(cone)[:200]}",
            )
        # ---- if
        elif is_case(s, "isinstance($o, scf.IfOp)", "isinstance($o, IfOp)"):
            n_if += 1
            key = f"{f.key}:case scf.IfOp"
            assert cone is not None
            ok = False
            for sub in ast.walk(cone):
                if isinstance(sub, ast.Call) and isinstance(sub.func, ast.Name) and sub.func.id == "state_intersection":
                    args = ast.Tuple(list(sub.args), ast.Load())
                    all_regions = depends_on(args, "$_.regions") or (
                        depends_on(args, "$_.true_region") and depends_on(args, "$_.false_region")
                    )
                    if all_regions and depends_on(args, "infer_state_of($_)"):
                        ok = True
            chk.result(
                ok or _is_empty_dict(v),
                "C07.if-merge",
                key,
                s.where(),
                "state after scf.if = state_intersection over the yielded states of all regions",
                f"state after scf.if is not the intersection over all regions: {ast.unparse(cone)[:200]}",
            )
        # ---- setup
        elif is_case(s, "isinstance($o, accfg.SetupOp)", "isinstance($o, SetupOp)"):
            n_setup += 1
            own = lambda x: depends_on(x, "$o.iter_params()", "$o.param_names", "$o.values", binds={"o": owner})
            rec = lambda x: depends_on(x, "infer_state_of($o.in_state)", binds={"o": owner})
            NONE_T = [T("$o.in_state is None"), T("not $o.in_state")]
            SOME_T = [T("$o.in_state is not None"), T("$o.in_state")]

            def split_ifexp(x: ast.expr) -> list[tuple[str, ast.expr]] | None:
                """the value under `in_state is None` and under `in_state is not None`, when a conditional expression decides"""
                hits = [n for n in ast.walk(x) if isinstance(n, ast.IfExp) and norm.any_match(NONE_T + SOME_T, n.test, {"o": owner}) is not None]
                if not hits:
                    return None
                out_: list[tuple[str, ast.expr]] = []
                for kind in ("none", "some"):
                    class Pick(ast.NodeTransformer):
                        def visit_IfExp(self, node: ast.IfExp) -> ast.AST:
                            self.generic_visit(node)
                            if norm.any_match(NONE_T, node.test, {"o": owner}) is not None:
                                return node.body if kind == "none" else node.orelse
                            if norm.any_match(SOME_T, node.test, {"o": owner}) is not None:
                                return node.orelse if kind == "none" else node.body
                            return node
                    import copy as _copy
                    out_.append((kind, ast.fix_missing_locations(Pick().visit(_copy.deepcopy(x)))))
                return out_

            cases: list[tuple[str, ast.expr]] = []
            if v is not None:
                from sa.flow import expand as _expand
                for alt in s.state.alts:
                    ex_a = _expand(v, alt.env)
                    atoms_ = [f_.expr for f_ in alt.facts.values() if f_.kind == "atom"] + [f_.expr for f_ in s.extra if f_.kind == "atom"]
                    if any(norm.any_match(NONE_T, a, {"o": owner}) is not None for a in atoms_):
                        cases.append(("none", ex_a))
                    elif any(norm.any_match(SOME_T, a, {"o": owner}) is not None for a in atoms_):
                        cases.append(("some", ex_a))
                    else:
                        sp = split_ifexp(ex_a)
                        if sp is None:
                            raise AnalysisError(f"{s.where()}: SetupOp case without a decidable in_state condition")
                        cases.extend(sp)
            if not cases:
                raise AnalysisError(f"{s.where()}: SetupOp case without a decidable in_state condition")
            for kind, ex in cases:
                if kind == "none":
                    chk.result(
                        own(ex) and not rec(ex),
                        "C07.setup-chain",
                        f"{f.key}:case SetupOp(in_state=None)",
                        s.where(),
                        "a setup without in_state yields exactly its own parameters",
                    )
                else:
                    ok = False
                    for _, m in subexprs(ex, "__mut_update__($a, $b)"):
                        ok = ok or (rec(m["a"]) and not own(m["a"]) and own(m["b"]))
                    for _, m in subexprs(ex, "$a | $b"):
                        ok = ok or (rec(m["a"]) and not own(m["a"]) and own(m["b"]))
                    if isinstance(ex, ast.Dict) and len(ex.keys) == 2 and all(k is None for k in ex.keys):
                        ok = ok or (rec(ex.values[0]) and own(ex.values[1]))
                    chk.result(
                        ok,
                        "C07.setup-chain",
                        f"{f.key}:case SetupOp(in_state)",
                        s.where(),
                        "state after a setup = inferred in_state updated by the setup's own parameters",
                        f"state after a setup must be the inferred in_state *updated by* the own parameters; found {ast.unparse(ex)[:200]}",
                    )
    for n, name in ((n_head, "loop-head (Block/scf.ForOp)"), (n_res, "scf.ForOp result"), (n_if, "scf.IfOp"), (n_setup, "SetupOp")):
        if n == 0:
            raise AnalysisError(f"{f.where}: no return found for case {name}")
    # infer_states_for_if : every region, yield operand at the result index
    g = repo.func(TRACE, "infer_states_for_if")
    chk.analysed(g.key)


def intersection(repo: Repo, chk: Check) -> None:
    f, fl = flow_of(repo, chk, TRACE, "state_intersection")
    chk.rule("C07.intersection", "state_intersection keeps a key only if every side holds it with the same value: a key that is missing on one side does not "
             "count as agreeing (no lookup with the compared value as its default)", floor=1)
    params = [x.arg for x in f.node.args.args]
    star = f.node.args.vararg.arg if f.node.args.vararg is not None else None
    if len(params) < 2 and star is None:
        raise AnalysisError(f"{f.where}: expected two states or a variadic list of states, found {params}")
    rets = [s for s in fl.stmts(ast.Return) if s.reachable]
    if not rets:
        raise AnalysisError(f"{f.where}: no return")
    # names bound from the variadic parameter: first, *others = states / first = states[0]; others = states[1:]
    rest_names: set[str] = set()
    first_names: set[str] = set()
    if star is not None:
        for n in ast.walk(f.node):
            if isinstance(n, ast.Assign) and len(n.targets) == 1:
                t, v = n.targets[0], n.value
                if isinstance(t, ast.Tuple) and isinstance(v, ast.Name) and v.id == star and len(t.elts) == 2 and isinstance(t.elts[0], ast.Name) \
                        and isinstance(t.elts[1], ast.Starred) and isinstance(t.elts[1].value, ast.Name):
                    first_names.add(t.elts[0].id)
                    rest_names.add(t.elts[1].value.id)
                elif isinstance(t, ast.Name) and norm.match(T(f"{star}[0]"), v) is not None:
                    first_names.add(t.id)
                elif isinstance(t, ast.Name) and norm.match(T(f"{star}[1:]"), v) is not None:
                    rest_names.add(t.id)
    for s in rets:
        v = s.node.value if star is not None else s.expand(s.node.value)
        ok = False
        lenient: list[str] = []
        if isinstance(v, ast.DictComp) and len(v.generators) == 1:
            gen = v.generators[0]
            it_names = norm.free_names(gen.iter)
            sides = set(params) | first_names
            overs = [x for x in sides if x in it_names]
            over = overs[0] if len(overs) == 1 else None
            if over is not None:
                # a value of the iterated side: mentions it, or is a value variable bound by iterating its items()/values()
                vals = {over}
                if norm.any_match(["$d.items()"], gen.iter, {"d": over}) is not None and isinstance(gen.target, ast.Tuple) and len(gen.target.elts) == 2 \
                        and isinstance(gen.target.elts[1], ast.Name):
                    vals.add(gen.target.elts[1].id)
                if norm.any_match(["$d.values()"], gen.iter, {"d": over}) is not None and isinstance(gen.target, ast.Name):
                    vals.add(gen.target.id)
                # (comparison atom, name of the other side): directly, or for every element of the remaining sides
                cands: list[tuple[ast.expr, str]] = []
                for c in gen.ifs:
                    for at in norm.atoms(c, True):
                        if isinstance(at, ast.Compare):
                            cands += [(at, o) for o in params if o != over]
                        if isinstance(at, ast.Call) and callee_name(at) == "all" and len(at.args) == 1 and isinstance(at.args[0], (ast.GeneratorExp, ast.ListComp)) \
                                and len(at.args[0].generators) == 1 and not at.args[0].generators[0].ifs:
                            g2 = at.args[0].generators[0]
                            covers = (isinstance(g2.iter, ast.Name) and g2.iter.id in rest_names) or norm.match(T(f"{star}[1:]"), g2.iter) is not None or (
                                isinstance(g2.iter, ast.Name) and g2.iter.id == star)
                            if isinstance(g2.target, ast.Name) and covers:
                                cands += [(x, g2.target.id) for x in norm.atoms(at.args[0].elt, True) if isinstance(x, ast.Compare)]
                for at, other in cands:
                    if len(at.ops) != 1 or not isinstance(at.ops[0], (ast.Eq, ast.Is)):
                        continue
                    for mine, theirs in ((at.left, at.comparators[0]), (at.comparators[0], at.left)):
                        if not (norm.free_names(mine) & vals) or other in norm.free_names(mine) or other not in norm.free_names(theirs):
                            continue
                        # the other side's value: other[k] or other.get(k) - a default that is the compared value makes a missing key agree
                        gets = [n for n in ast.walk(theirs) if isinstance(n, ast.Call) and isinstance(n.func, ast.Attribute) and n.func.attr in ("get", "setdefault", "pop")
                                and isinstance(n.func.value, ast.Name) and n.func.value.id == other and len(n.args) + len(n.keywords) >= 2]
                        soft = [g for g in gets if any(norm.free_names(a_) & vals for a_ in [*g.args[1:], *[k.value for k in g.keywords]])]
                        if soft:
                            lenient.append(ast.unparse(soft[0]))
                        else:
                            ok = True
        if lenient:
            ok = False
        chk.result(
            ok,
            "C07.intersection",
            f"{f.key}:equality-filter",
            s.where(),
            "a key survives only under equality of every side",
            (f"a key that is missing on one side survives: `{lenient[0]}` falls back to the compared value itself, so the state after a branch / loop keeps fields "
             "that one path never wrote" if lenient else f"state_intersection does not filter on equality of both sides: {ast.unparse(v)[:160]}"),
        )


# --------------------------------------------------------------------------- has_accfg_effects

def _domain_chain(var: str, binders: dict[str, ast.expr], root: str) -> bool:
    """`var` ranges over the ops nested in `root`: regions -> blocks -> ops, regions -> walk(), or root.walk()"""
    steps: list[str] = []
    cur: ast.expr | None = binders.get(var)
    for _ in range(6):
        if cur is None:
            return False
        # peel list()/tuple()/iter() wrappers
        while isinstance(cur, ast.Call) and isinstance(cur.func, ast.Name) and cur.func.id in ("list", "tuple", "iter") and len(cur.args) == 1:
            cur = cur.args[0]
        if isinstance(cur, ast.Call) and isinstance(cur.func, ast.Attribute) and cur.func.attr == "walk" and not cur.args and not cur.keywords:
            steps.append("walk()")
            base = cur.func.value
        elif isinstance(cur, ast.Attribute):
            steps.append(cur.attr)
            base = cur.value
        else:
            return False
        if not isinstance(base, ast.Name):
            return False
        if base.id == root:
            steps.reverse()
            return steps in (["regions", "blocks", "ops"], ["regions", "walk()"], ["walk()"], ["regions", "ops"])
        cur = binders.get(base.id)
    return False


def _helper_as_any(h: Func, target: str) -> tuple[str, str] | None:
    """(x, attr) when h(p) is `any(target(x) for x in p.attr)`: written as that expression, or as the loop `for x in p.attr: if target(x): return True` followed by
    `return False`"""
    p = h.params[0]
    body = [b for b in h.node.body if not (isinstance(b, ast.Expr) and isinstance(b.value, ast.Constant))]
    if len(body) == 1 and isinstance(body[0], ast.Return) and body[0].value is not None:
        m = norm.match(T(f"any({target}($x) for $y in {p}.$a)"), body[0].value)
        v = body[0].value
        if isinstance(v, ast.Call) and isinstance(v.func, ast.Name) and v.func.id == "any" and len(v.args) == 1 and isinstance(v.args[0], (ast.GeneratorExp, ast.ListComp)) \
                and len(v.args[0].generators) == 1 and not v.args[0].generators[0].ifs and isinstance(v.args[0].generators[0].target, ast.Name):
            g = v.args[0].generators[0]
            if isinstance(g.iter, ast.Attribute) and isinstance(g.iter.value, ast.Name) and g.iter.value.id == p \
                    and norm.match(T(f"{target}({g.target.id})"), v.args[0].elt) is not None:
                return g.target.id, g.iter.attr
        return None
    if len(body) == 2 and isinstance(body[0], ast.For) and isinstance(body[0].target, ast.Name) and not body[0].orelse and isinstance(body[1], ast.Return) \
            and isinstance(body[1].value, ast.Constant) and body[1].value.value is False:
        lp = body[0]
        if isinstance(lp.iter, ast.Attribute) and isinstance(lp.iter.value, ast.Name) and lp.iter.value.id == p and len(lp.body) == 1 and isinstance(lp.body[0], ast.If) \
                and not lp.body[0].orelse and norm.match(T(f"{target}({lp.target.id})"), lp.body[0].test) is not None and len(lp.body[0].body) == 1 \
                and isinstance(lp.body[0].body[0], ast.Return) and isinstance(lp.body[0].body[0].value, ast.Constant) and lp.body[0].body[0].value.value is True:
            return lp.target.id, lp.iter.attr
    return None


def _nested_scan(repo: Repo, f: Func, fl: Flow, root: str, target: str, depth: int) -> Site | None:
    """a return site of `f` that yields a true value exactly when `target(x)` holds for some op x nested in `root`"""
    parents: dict[int, ast.AST] = {}
    for n in ast.walk(f.node):
        for ch in ast.iter_child_nodes(n):
            parents[id(ch)] = n

    def loop_binders(node: ast.AST) -> dict[str, ast.expr]:
        out: dict[str, ast.expr] = {}
        cur = parents.get(id(node))
        while cur is not None:
            if isinstance(cur, ast.For) and isinstance(cur.target, ast.Name):
                out.setdefault(cur.target.id, cur.iter)
            cur = parents.get(id(cur))
        return out

    def helper_ok(call: ast.Call) -> bool:
        # a repo helper (other than the target) that performs the nested scan on its argument
        if depth >= 1 or not isinstance(call.func, ast.Name) or call.func.id == target or len(call.args) != 1 or call.keywords:
            return False
        if not (isinstance(call.args[0], ast.Name) and call.args[0].id == root):
            return False
        h = repo.try_func(f.module.relpath, call.func.id)
        if h is None or not h.params:
            return False
        return _nested_scan(repo, h, Flow(h, repo, inline_calls=0), h.params[0], target, depth + 1) is not None

    def positive_any(e: ast.expr, outer: dict[str, ast.expr]) -> bool:
        """e is (or positively contains, under or/any) `any(target(x) for x in <nested ops of root>)` or a helper doing so"""
        def positive(x: ast.expr) -> list[ast.expr]:
            if isinstance(x, ast.BoolOp) and isinstance(x.op, ast.Or):
                return [y for v in x.values for y in positive(v)]
            if isinstance(x, ast.IfExp):
                return positive(x.body) + positive(x.orelse)
            if isinstance(x, ast.Call) and isinstance(x.func, ast.Name) and x.func.id == "bool" and len(x.args) == 1:
                return positive(x.args[0])
            return [x]

        for sub in positive(e):
            if isinstance(sub, ast.Call) and helper_ok(sub):
                return True
            if isinstance(sub, ast.Call) and isinstance(sub.func, ast.Name) and sub.func.id == "any" and len(sub.args) == 1 and isinstance(
                    sub.args[0], (ast.GeneratorExp, ast.ListComp)):
                comp = sub.args[0]
                binders = dict(outer)
                for gen in comp.generators:
                    if isinstance(gen.target, ast.Name):
                        binders[gen.target.id] = gen.iter
                    if gen.ifs:
                        binders.clear()  # a filtered scan does not cover every op
                # the element may hand one level of the nesting to a helper: `any(h(block) for .. for block in region.blocks)` with
                # `def h(b): for x in b.ops: if target(x): return True; return False` is the scan with one more generator
                el0 = comp.elt
                if isinstance(el0, ast.Call) and isinstance(el0.func, ast.Name) and el0.func.id != target and len(el0.args) == 1 and not el0.keywords \
                        and isinstance(el0.args[0], ast.Name) and el0.args[0].id in binders and depth < 1:
                    h = repo.try_func(f.module.relpath, el0.func.id)
                    inner = _helper_as_any(h, target) if h is not None and len(h.params) == 1 else None
                    if inner is not None:
                        var_, attr_ = inner
                        gens = [*comp.generators, ast.comprehension(ast.Name(var_, ast.Store()), ast.Attribute(ast.Name(el0.args[0].id, ast.Load()), attr_, ast.Load()), [], 0)]
                        new_comp = ast.GeneratorExp(ast.Call(ast.Name(target, ast.Load()), [ast.Name(var_, ast.Load())], []), gens)
                        new_any = ast.Call(ast.Name("any", ast.Load()), [new_comp], [])
                        ast.fix_missing_locations(new_any)
                        if positive_any(new_any, outer):
                            return True
                for c in ast.walk(comp.elt):
                    if isinstance(c, ast.Call) and isinstance(c.func, ast.Name) and c.func.id == target and len(c.args) == 1 \
                            and isinstance(c.args[0], ast.Name) and _domain_chain(c.args[0].id, binders, root):
                        # the call must be the element itself or an `or`-operand of it
                        el = comp.elt
                        if c is el or (isinstance(el, ast.BoolOp) and isinstance(el.op, ast.Or) and any(c is v for v in el.values)):
                            return True
        return False

    for s in [x for x in fl.stmts(ast.Return) if x.reachable]:
        v = s.node.value
        const = v.value if isinstance(v, ast.Constant) else None
        if isinstance(v, ast.Constant) and not const:
            continue  # `return False` / `return None` says nothing
        binders = {l.target.id: l.iter for l in reversed(s.loops) if isinstance(l, ast.For) and isinstance(l.target, ast.Name)}
        binders = {**loop_binders(s.stmt), **binders}
        # (a) the returned value is the scan
        if v is not None and not isinstance(v, ast.Constant) and positive_any(s.expand(v), binders):
            return s
        # (b) a true return dominated by the scan / by `target(x)` inside loops over the nested ops
        if const is True:
            for fact in s.facts:
                if fact.kind != "atom":
                    continue
                e = fact.expr
                if isinstance(e, ast.Call) and isinstance(e.func, ast.Name) and e.func.id == target and len(e.args) == 1 \
                        and isinstance(e.args[0], ast.Name) and _domain_chain(e.args[0].id, binders, root):
                    return s
                if positive_any(e, binders) and not norm.is_not(e):
                    return s
                # one level of the nesting handed to a helper: `if h(block): return True` inside the loops over regions / blocks
                if isinstance(e, ast.Call) and isinstance(e.func, ast.Name) and e.func.id != target and len(e.args) == 1 and not e.keywords \
                        and isinstance(e.args[0], ast.Name) and e.args[0].id in binders and depth < 1:
                    h = repo.try_func(f.module.relpath, e.func.id)
                    inner = _helper_as_any(h, target) if h is not None and len(h.params) == 1 else None
                    if inner is not None:
                        var_, attr_ = inner
                        b2 = dict(binders)
                        b2[var_] = ast.Attribute(ast.Name(e.args[0].id, ast.Load()), attr_, ast.Load())
                        if _domain_chain(var_, b2, root):
                            return s
    return None

def effects(repo: Repo, chk: Check) -> None:
    f, fl = flow_of(repo, chk, HELPERS, "has_accfg_effects")
    op = f.param(0)
    chk.rule(
        "C07.effects-table",
        "has_accfg_effects: True for func.CallOp and llvm.CallOp; an accfg.effects attribute overrides with "
        "`!= NONE`; recursion over every op of every block of every region",
        floor=4,
    )
    rets = [s for s in fl.stmts(ast.Return) if s.reachable]
    true_rets = [s for s in rets if isinstance(s.node.value, ast.Constant) and s.node.value.value is True]
    # (1) calls
    for cls in ("func.CallOp", "llvm.CallOp"):
        hit = None
        for s in true_rets:
            for fact in s.facts:
                if fact.kind != "atom":
                    continue
                m = norm.match(T("isinstance($x, $c)"), fact.expr, {"x": op})
                if m is not None:
                    classes = [ast.unparse(e) for e in (m["c"].elts if isinstance(m["c"], ast.Tuple) else [m["c"]])]
                    if cls in classes or cls.split(".")[1] in classes:
                        hit = s
        # also accept `return isinstance(op, ...)` spelled as a boolean return
        chk.result(
            hit is not None,
            "C07.effects-table",
            f"{f.key}:{cls}",
            hit.where() if hit else f.where,
            f"{cls} is reported as having accfg effects",
            f"{cls} is no longer reported as affecting accelerator state (unannotated calls must invalidate the state)",
        )
    # (1b) every non-overridden return for a call op is `True`
    for s in rets:
        if has_fact(s, ["isinstance($_, accfg.EffectsAttr)", "isinstance($_, EffectsAttr)"]):
            continue
        for fact in s.facts:
            if fact.kind != "atom":
                continue
            m = norm.match(T("isinstance($x, $c)"), fact.expr, {"x": op})
            if m is None:
                continue
            classes = [ast.unparse(e) for e in (m["c"].elts if isinstance(m["c"], ast.Tuple) else [m["c"]])]
            if not classes or not all(c.endswith("CallOp") for c in classes):
                continue
            v = s.node.value
            chk.result(
                isinstance(v, ast.Constant) and v.value is True,
                "C07.effects-table",
                f"{f.key}:call-always-effecting:{'/'.join(classes)}",
                s.where(),
                "an unannotated call is unconditionally reported as effecting",
                f"for a call op ({'/'.join(classes)}) without effects annotation the function can return "
                f"`{ast.unparse(v) if v is not None else None}` instead of True: some unannotated calls are treated as harmless",
                s.fact_texts,
            )
    # (2) attribute override polarity
    attr_rets = [
        s
        for s in rets
        if has_fact(s, ["isinstance($_, accfg.EffectsAttr)", "isinstance($_, EffectsAttr)"]) and not isinstance(s.node.value, ast.Constant)
    ]
    if not attr_rets:
        raise AnalysisError(f"{f.where}: return under the EffectsAttr test not found")
    for s in attr_rets:
        v = s.expand(s.node.value)
        ok = bool(norm.any_match(["$x.data != accfg.EffectsEnum.NONE", "$x.data != EffectsEnum.NONE",
                                  "$x.data is not accfg.EffectsEnum.NONE", "not $x.data == accfg.EffectsEnum.NONE"], v))
        attr_src = depends_on(v, '$o.attributes.get("accfg.effects", $_)', '$o.attributes["accfg.effects"]',
                              '$o.attributes.get("accfg.effects")', binds={"o": op})
        chk.result(ok and attr_src, "C07.effects-table", f"{f.key}:attr-polarity", s.where(),
                   "accfg.effects attribute: effects unless NONE",
                   f"the accfg.effects override returns {ast.unparse(v)[:120]}; expected `<attr>.data != EffectsEnum.NONE` on op.attributes['accfg.effects']")
    # (3) recursion: some return that is not `False` is reached exactly when the function holds for an op drawn from
    #     every op of every block of every region of the argument (comprehension, explicit loops, or a helper doing either)
    rec_ok = _nested_scan(repo, f, fl, op, f.name, 0)
    chk.result(rec_ok is not None, "C07.effects-table", f"{f.key}:recursion", rec_ok.where() if rec_ok else f.where,
               "effects of nested ops are found by recursion over regions/blocks/ops",
               "has_accfg_effects no longer recurses over every op of every region: a call nested in control flow is missed")


# --------------------------------------------------------------------------- _weave_states_in_region
def _chain(node: ast.If) -> list[tuple[ast.expr | None, list[ast.stmt]]]:
    out: list[tuple[ast.expr | None, list[ast.stmt]]] = []
    cur: ast.If | None = node
    while cur is not None:
        out.append((cur.test, cur.body))
        if len(cur.orelse) == 1 and isinstance(cur.orelse[0], ast.If):
            cur = cur.orelse[0]
        else:
            if cur.orelse:
                out.append((None, cur.orelse))
            cur = None
    return out


def weave(repo: Repo, chk: Check) -> None:
    f, fl = flow_of(repo, chk, WEAVE, "_weave_states_in_region")
    state = f.param(1)
    chk.rule(
        "C07.weave-kill",
        "every branch of the op-kind chain that an op with accfg effects can take must, on every path to the next "
        "op, pass a construct that shrinks the tracked state: `if has_accfg_effects(op): state.clear()`, or a "
        "deletion loop driven by the states returned from weaving the op's regions",
        floor=3,
    )
    # locate the chain: an if/elif chain one of whose tests is has_accfg_effects(<loop var>)
    chain_node = None
    opvar = None
    for n in ast.walk(f.node):
        if isinstance(n, ast.For) and isinstance(n.target, ast.Name):
            for st in n.body:
                if isinstance(st, ast.If):
                    for test, _ in _chain(st):
                        if test is not None and norm.match(T("has_accfg_effects($x)"), test, {"x": n.target.id}) is not None:
                            chain_node, opvar = st, n.target.id
    if chain_node is None or opvar is None:
        raise AnalysisError(f"{f.where}: op-kind chain with a has_accfg_effects branch not found")
    site_of = {id(s.node): s for s in fl.sites if s.node is s.stmt}

    def clears(stmts: list[ast.stmt]) -> bool:
        for st in stmts:
            if isinstance(st, ast.Expr) and norm.match(T("$s.clear()"), st.value, {"s": state}) is not None:
                return True
            if isinstance(st, ast.Assign) and any(isinstance(t, ast.Name) and t.id == state for t in st.targets) and _is_empty_dict(st.value):
                return True
        return False

    def is_shrink(st: ast.stmt) -> bool:
        if clears([st]):
            return True
        if isinstance(st, ast.If) and not st.orelse:
            if norm.match(T("has_accfg_effects($x)"), st.test, {"x": opvar}) is not None and clears(st.body):
                return True
        if isinstance(st, ast.For):
            # deletion loop driven by the results of weaving the op's regions
            tvars = {n.id for n in ast.walk(st.target) if isinstance(n, ast.Name)}
            guards: list[ast.expr] = []  # conditions under which a key is deleted
            dels = False

            def scan(body: list[ast.stmt], conds: list[ast.expr]) -> None:
                nonlocal dels
                conds = list(conds)
                for b in body:
                    hit = False
                    if isinstance(b, ast.Delete):
                        for t in b.targets:
                            if isinstance(t, ast.Subscript) and isinstance(t.value, ast.Name) and t.value.id == state and norm.free_names(t.slice) & tvars:
                                hit = True
                    if isinstance(b, ast.Expr) and norm.any_match(["$s.pop($k)", "$s.pop($k, $_)"], b.value, {"s": state}) is not None:
                        hit = True
                    if hit:
                        dels = True
                        guards.extend(conds)
                    if isinstance(b, ast.If):
                        scan(b.body, conds + [b.test])
                        scan(b.orelse, conds + [norm.negate(b.test)])
                        if b.body and isinstance(b.body[-1], (ast.Continue,)) and not b.orelse:
                            conds.append(norm.negate(b.test))

            scan(st.body, [])
            s = site_of.get(id(st))
            if dels and s is not None:
                cones = [fl.cone(st.iter, s)] + [fl.cone(c, s) for c in guards]
                rec = [c for cone in cones for c in ast.walk(cone) if isinstance(c, ast.Call) and isinstance(c.func, ast.Name) and c.func.id == f.name]
                # the filter (in the iterated expression or around the deletion) must keep exactly the keys missing from a branch result
                if rec and any(depends_on(cone, "$_ not in $_") for cone in cones):
                    return True
        return False

    def ends(stmts: list[ast.stmt], kinds=(ast.Continue, ast.Return, ast.Raise, ast.Break)) -> ast.stmt | None:
        return stmts[-1] if stmts and isinstance(stmts[-1], kinds) else None

    def ok(stmts: list[ast.stmt]) -> tuple[bool, int]:
        """every path from the start of stmts to its end / a `continue` passes a shrink construct;
        returns (ok, line of the first offending exit)"""
        for i, st in enumerate(stmts):
            if is_shrink(st):
                return True, 0
            if isinstance(st, ast.Continue):
                return False, st.lineno
            if isinstance(st, ast.If):
                for branch in (st.body, st.orelse):
                    e = ends(branch)
                    if isinstance(e, ast.Continue):
                        good, line = ok(branch)
                        if not good:
                            return False, line or e.lineno
                both = st.orelse and not ends(st.body) and not ends(st.orelse)
                if both and ok(st.body)[0] and ok(st.orelse)[0]:
                    return True, 0
        return False, (stmts[-1].end_lineno or stmts[-1].lineno) if stmts else 0

    fallback = False
    for test, body in _chain(chain_node):
        ttxt = ast.unparse(test) if test is not None else "else"
        key = f"{f.key}:branch {ttxt}"
        line = body[0].lineno if body else chain_node.lineno
        where = f"{f.module.relpath}:{line}"
        if test is not None and norm.match(T("has_accfg_effects($x)"), test, {"x": opvar}) is not None:
            fallback = True
            chk.result(clears(body), "C07.weave-kill", key, where,
                       "ops with accfg effects clear the tracked state",
                       "the has_accfg_effects branch no longer clears the tracked state")
            continue
        if fallback:
            # branches after the effects test are only reached by effect-free ops
            chk.ok("C07.weave-kill", key, where, "branch is only reached by ops without accfg effects", nontrivial=False)
            continue
        if test is not None and norm.any_match(["isinstance($x, accfg.SetupOp)", "isinstance($x, SetupOp)"], test, {"x": opvar}) is not None:
            chk.ok("C07.weave-kill", key, where, "exempt: a setup op has no nested ops and is not a call", nontrivial=False)
            continue
        good, bad_line = ok(body)
        chk.result(
            good,
            "C07.weave-kill",
            key,
            where if good else f"{f.module.relpath}:{bad_line}",
            "every path through the branch passes a state-shrinking construct",
            f"an op taking the branch `{ttxt}` can have accfg effects (nested unannotated call / invalidating branch), but a path "
            f"through the branch (exit near line {bad_line}) never shrinks the tracked state: the stale state stays in force",
        )
    if not fallback:
        chk.bad("C07.weave-kill", f"{f.key}:branch has_accfg_effects", f.where, "no fallback branch clearing the state for ops with accfg effects")

    # ---- straight-line knowledge only: nothing flows into a sibling region or another block
    chk.rule(
        "C07.weave-regions",
        "the state dictionary is cleared when the walk moves on to a further block (of the same region or of a sibling region): such a block can be "
        "entered without the code woven before it having run (alternative regions of an unknown op, unstructured control flow)",
        floor=1,
    )
    blk_loops = [n for n in ast.walk(f.node) if isinstance(n, ast.For) and norm.any_match(["$r.blocks"], n.iter) is not None]
    if not blk_loops:
        raise AnalysisError(f"{f.where}: loop over the blocks of a region not found")
    for bl in blk_loops:
        pre = []
        for st in bl.body:
            if isinstance(st, ast.For) and norm.any_match(["$b.ops"], st.iter) is not None:
                break
            pre.append(st)
        resets = any(clears([st]) or (isinstance(st, ast.If) and clears(st.body)) for st in pre)
        chk.result(resets, "C07.weave-regions", f"{f.key}:block-entry", f"{f.module.relpath}:{bl.lineno}",
                   "the state is cleared on entry to every block but the first",
                   "one state dictionary is carried through all blocks and sibling regions: a setup in the second region of an op (or in another CFG block) is "
                   "threaded from the setup in the first one, and dedup drops fields that are only set on the other path")

    # ---- loops: the yield of every state block argument is the state at the end of the woven body
    chk.rule(
        "C07.weave-loop-yield",
        "for every accelerator set up in a loop body the loop yields the state the weaving reached at the end of the body - through the yield operand "
        "appended for a block argument it created, and through the operand it overwrites for a state block argument that was already there "
        "(pre-threaded input): a yield left as found may name a state that later setups of the body have replaced",
        floor=1,
    )
    body_weaves = [n for n in ast.walk(f.node) if isinstance(n, ast.Assign) and isinstance(n.targets[0], ast.Name) and isinstance(n.value, ast.Call)
                   and callee_name(n.value) == f.name and n.value.args and norm.match(T("$o.body"), n.value.args[0]) is not None]
    if not body_weaves:
        raise AnalysisError(f"{f.where}: the weaving of a loop body (`x = {f.name}(op.body, ..)`) was not found")
    after = body_weaves[0].targets[0].id  # type: ignore[union-attr]
    appended = any(isinstance(n, ast.Assign) and norm.match(T("$y.operands"), n.targets[0]) is not None and isinstance(n.value, ast.Tuple)
                   and any(isinstance(x, ast.Subscript) and isinstance(x.value, ast.Name) and x.value.id == after for x in ast.walk(n.value)) for n in ast.walk(f.node))
    chk.result(appended, "C07.weave-loop-yield", f"{f.key}:created", f"{f.module.relpath}:{body_weaves[0].lineno}",
               "a created state block argument yields the end-of-body state", "the yield is not extended with the end-of-body state of a created loop-carried state")
    reuses = any(isinstance(n, ast.Call) and callee_name(n) == "find_existing_block_arg" for n in ast.walk(f.node))
    if reuses:
        overwritten = any(
            isinstance(n, ast.Assign) and isinstance(n.targets[0], ast.Subscript) and norm.match(T("$y.operands"), n.targets[0].value) is not None
            and any(isinstance(x, ast.Attribute) and x.attr == "index" for x in ast.walk(n.targets[0].slice))
            and any(isinstance(x, ast.Subscript) and isinstance(x.value, ast.Name) and x.value.id == after for x in ast.walk(n.value))
            for n in ast.walk(f.node))
        chk.result(overwritten, "C07.weave-loop-yield", f"{f.key}:existing", f"{f.module.relpath}:{body_weaves[0].lineno}",
                   "a state block argument that was already there gets the end-of-body state as its yield operand",
                   "a loop that already carries a state keeps the yield operand it came with: if that operand names a state that a later setup of the body has replaced "
                   "(partially threaded input), the state assumed at the loop head and after the loop is not the one the registers hold")

    # ---- regions woven on their own: what is configured inside is unknown outside
    chk.rule(
        "C07.weave-nested",
        "a branch that weaves an op's regions and discards the resulting state (unknown region ops) removes from the outer state every "
        "accelerator that is set up inside those regions (or clears it)",
        floor=1,
    )
    n_nested = 0
    for test, body in _chain(chain_node):
        for st in body:
            # the op's regions woven from an empty state of their own (whether the returned state is dropped on the floor or looked at:
            # it only holds what is still known at the END of the regions, not what was set up inside them)
            own = [c for c in ast.walk(st) if isinstance(c, ast.Call) and isinstance(c.func, ast.Name) and c.func.id == f.name and len(c.args) >= 2
                   and _is_empty_dict(c.args[1])]
            if not own:
                continue
            n_nested += 1
            shrinks = False
            for b in body:
                if clears([b]):
                    shrinks = True
                for lp in [n for n in ast.walk(b) if isinstance(n, ast.For)]:
                    tv = {n.id for n in ast.walk(lp.target) if isinstance(n, ast.Name)}
                    drops = any(
                        (isinstance(x, ast.Call) and norm.any_match(["$s.pop($k)", "$s.pop($k, $d)"], x, {"s": state}) is not None and norm.free_names(x.args[0]) & tv)
                        or (isinstance(x, ast.Delete) and any(isinstance(t, ast.Subscript) and isinstance(t.value, ast.Name) and t.value.id == state and norm.free_names(t.slice) & tv for t in x.targets))
                        for x in ast.walk(lp))
                    if drops and norm.contains(lp.iter, T("find_all_acc_names_in_region($r)")):
                        shrinks = True
            ttxt = ast.unparse(test) if test is not None else "else"
            chk.result(shrinks, "C07.weave-nested", f"{f.key}:branch {ttxt}", f"{f.module.relpath}:{st.lineno}",
                       "accelerators configured inside the separately woven regions are dropped from the outer state",
                       f"the regions of an op taking the branch `{ttxt}` are woven on their own and the result is discarded, but the outer state is kept: a setup after "
                       "the op is threaded from the setup before it although a setup inside the regions has changed the registers")
    if n_nested == 0:
        chk.ok("C07.weave-nested", f"{f.key}:none", f.where, "no branch discards the state of separately woven regions", nontrivial=False)

    # ---- linking of setups
    chk.rule(
        "C07.weave-link",
        "a setup is re-created with in_state = state[accelerator of this setup] and state[accel] is set to the "
        "(possibly new) op's out_state unconditionally",
        floor=2,
    )
    setup_body = None
    for test, body in _chain(chain_node):
        if test is not None and norm.any_match(["isinstance($x, accfg.SetupOp)", "isinstance($x, SetupOp)"], test, {"x": opvar}) is not None:
            setup_body = body
    if setup_body is None:
        raise AnalysisError(f"{f.where}: SetupOp branch not found")
    relink_sites: list = []
    for s in fl.calls("SetupOp"):
        call = s.node
        assert isinstance(call, ast.Call)
        if not any(x is st or _contains(st, x) for st in setup_body for x in (s.stmt, *s.callers)):
            continue  # neither in the SetupOp branch nor in a helper called from it
        if len(call.args) < 4:
            continue
        ex = [s.expand(a) for a in call.args[:4]]
        good = (
            depends_on(ex[0], "$x.values", binds={"x": opvar})
            and depends_on(ex[1], "$x.param_names", binds={"x": opvar})
            and depends_on(ex[2], "$x.accelerator", binds={"x": opvar})
            and norm.any_match(["$s[$x.accelerator.data]", "$s.get($x.accelerator.data)", "$s.get($x.accelerator.data, None)"], ex[3], {"s": state, "x": opvar}) is not None
        )
        chk.result(good, "C07.weave-link", f"{f.key}:relink", s.where(),
                   "re-linked setup keeps values/names/accelerator and takes state[its accelerator] as in_state",
                   f"re-linked setup is built as SetupOp({', '.join(ast.unparse(e)[:40] for e in ex)})")
        total = bool(has_fact(s, ["$x.in_state != $s.get($x.accelerator.data)", "$x.in_state is not $s.get($x.accelerator.data)",
                                  "$x.in_state != $s.get($x.accelerator.data, None)"], {"s": state, "x": opvar}))
        partial = bool(has_fact(s, ["$x.in_state != $s[$x.accelerator.data]", "$x.in_state is not $s[$x.accelerator.data]"], {"s": state, "x": opvar})) \
            and bool(has_fact(s, ["$x.accelerator.data in $s"], {"s": state, "x": opvar}))
        relink_sites.append((s, total, partial))
    handles_unknown = any(t for _, t, _ in relink_sites) or any(
        bool(has_fact(s, ["$x.accelerator.data not in $s"], {"s": state, "x": opvar})) for s, _, _ in relink_sites)
    for s, total, partial in relink_sites:
        chk.result(
            (total or partial) and handles_unknown,
            "C07.weave-link", f"{f.key}:relink-guard", s.where(),
            "a setup is re-linked whenever its in_state differs from the recorded state, an unknown recorded state included",
            "a setup keeps the in_state it already has when the tracer has no state for its accelerator (after an invalidation): a stale pre-threaded "
            "`from` survives and dedup compares against a state that no longer holds" if (total or partial) else
            "re-linking guard changed: expected `op.in_state != state.get(accel)`", s.fact_texts)
    if False:
        pass
    stores = [st for st in setup_body if isinstance(st, ast.Assign) and any(
        isinstance(t, ast.Subscript) and isinstance(t.value, ast.Name) and t.value.id == state for t in st.targets)]
    good = False
    where = f"{f.module.relpath}:{setup_body[0].lineno}"
    for st in stores:
        s = site_of.get(id(st))
        if s is None:
            continue
        where = s.where()
        t = st.targets[0]
        assert isinstance(t, ast.Subscript)
        idx = s.expand(t.slice)
        val = fl.cone(st.value, s)
        if norm.match(T("$x.accelerator.data"), idx, {"x": opvar}) is not None or depends_on(fl.cone(t.slice, s), "$x.accelerator.data", binds={"x": opvar}):
            if depends_on(val, "$_.out_state"):
                good = True
    chk.result(good, "C07.weave-link", f"{f.key}:record-out-state", where,
               "state[accel] = out_state of the (possibly re-created) setup on every path through the SetupOp branch",
               "the SetupOp branch no longer records the setup's out_state as the current state of its accelerator")


def _contains(outer: ast.AST, inner: ast.AST) -> bool:
    return any(n is inner for n in ast.walk(outer))


def if_delta(repo: Repo, chk: Check) -> None:
    f, fl = flow_of(repo, chk, HELPERS, "calc_if_state_delta")
    chk.rule(
        "C07.if-delta",
        "calc_if_state_delta never reports an accelerator whose state was invalidated on one side: every component of a reported "
        "value that is read from a branch state is known to exist there (a `pop(k, None)` result is tested against None, a "
        "`state[k]` read is guarded by `k in state` or iterates that state)",
        floor=2,
    )
    branch_states = {f.param(1), f.param(2)}

    def from_branch(e: ast.expr) -> tuple[str, ast.expr | None] | None:
        """('pop'|'item', key) when e reads a branch state in a way that may not find the key"""
        if isinstance(e, ast.Call) and isinstance(e.func, ast.Attribute) and e.func.attr in ("pop", "get") and isinstance(e.func.value, ast.Name) \
                and e.func.value.id in branch_states:
            return ("pop", e.args[0] if e.args else None)
        if isinstance(e, ast.Subscript) and isinstance(e.value, ast.Name) and e.value.id in branch_states:
            return ("item", e.slice)
        return None

    def single_def(e: ast.expr) -> ast.expr:
        """a local with exactly one definition stands for that definition (also when the definition has effects, like pop)"""
        if not isinstance(e, ast.Name):
            return e
        defs = [n for n in ast.walk(f.node) if isinstance(n, (ast.Assign, ast.AnnAssign, ast.AugAssign, ast.NamedExpr, ast.For, ast.comprehension))
                and any(isinstance(t, ast.Name) and t.id == e.id for tt in (n.targets if isinstance(n, ast.Assign) else [n.target]) for t in ast.walk(tt))]
        if len(defs) == 1 and isinstance(defs[0], ast.Assign) and len(defs[0].targets) == 1 and isinstance(defs[0].targets[0], ast.Name):
            return defs[0].value
        return e

    def iterates(binders: dict[str, ast.expr], key: ast.expr, state: str) -> bool:
        """the key variable is drawn from `state` itself"""
        if not isinstance(key, ast.Name) or key.id not in binders:
            return False
        it = binders[key.id]
        return bool(norm.any_match(["$s", "$s.keys()", "$s.items()", "list($s)", "tuple($s)", "list($s.keys())", "list($s.items())"], it, {"s": state}))

    def check_value(val: ast.expr, raw: ast.expr, site: Site, conds: list[ast.expr], binders: dict[str, ast.expr], label: str, where: str) -> None:
        val = single_def(val)
        if isinstance(val, ast.Tuple):
            val = ast.Tuple([single_def(e) for e in val.elts], ast.Load())
        elems = val.elts if isinstance(val, ast.Tuple) else None
        if elems is None:
            raise AnalysisError(f"{where}: reported value {ast.unparse(val)[:80]} is not a pair of branch values")
        raw_elems = raw.elts if isinstance(raw, ast.Tuple) and len(raw.elts) == len(elems) else [None] * len(elems)
        for i, (el, rel) in enumerate(zip(elems, raw_elems)):
            src = from_branch(el)
            key = f"{f.key}:{label}:component{i}"
            if src is None:
                if isinstance(el, ast.Name) and el.id in binders:
                    chk.ok("C07.if-delta", key, where, "component iterates a branch state", nontrivial=False)
                continue
            kind, k = src
            ok_ = False
            if kind == "pop":
                alts = [el] + ([rel] if rel is not None else [])
                for a in alts:
                    if has_fact(site, ["$e is not None"], {"e": a}) or any(norm.match(T("$e is not None"), c, {"e": a}) is not None for c in conds):
                        ok_ = True
                # quantified over the whole pair
                for fact in site.facts:
                    if fact.kind != "atom":
                        continue
                    q = norm.qnf(fact.expr)
                    if q is None:
                        continue
                    kd, var, dom, filters, body = q
                    if kd == "all" and not filters and norm.match(T("$v is not None"), body, {"v": var}) is not None:
                        d = single_def(site.expand(dom))
                        if isinstance(d, (ast.Tuple, ast.List)):
                            d = ast.Tuple([single_def(x) for x in d.elts], ast.Load())
                        if ast.dump(d) == ast.dump(val) or (isinstance(d, (ast.Tuple, ast.List)) and any(ast.dump(x) == ast.dump(el) for x in d.elts)):
                            ok_ = True
            else:
                state = el.value.id  # type: ignore[union-attr]
                assert k is not None
                if has_fact(site, ["$k in $s"], {"k": k, "s": state}) or any(norm.match(T("$k in $s"), c, {"k": k, "s": state}) is not None for c in conds):
                    ok_ = True
                if iterates(binders, k, state):
                    ok_ = True
            chk.result(ok_, "C07.if-delta", key, where,
                       "a branch value is reported only if that branch still holds one",
                       f"`{ast.unparse(el)[:80]}` is reported as the state after the if although that branch may have invalidated it "
                       "(no None test / membership test dominates the store)", site.fact_texts)

    n = 0
    # (a) subscript stores into the result
    for s in [x for x in fl.stmts(ast.Assign) if x.reachable]:
        t = s.node.targets[0]
        if not isinstance(t, ast.Subscript):
            continue
        binders = {}
        for l in s.loops:
            if isinstance(l, ast.For):
                for nm in ast.walk(l.target):
                    if isinstance(nm, ast.Name):
                        binders[nm.id] = l.iter
        in_old_loop = any(isinstance(l, ast.For) and f.param(0) in norm.free_names(l.iter) for l in s.loops)
        n += 1
        check_value(s.expand(s.node.value), s.node.value, s, [], binders, "old-keys" if in_old_loop else "new-keys", s.where())
    # (b) dict comprehensions merged into / returned as the result
    for s in [x for x in fl.sites if x.reachable and x.node is x.stmt]:
        for dc in [d for d in ast.walk(s.stmt) if isinstance(d, ast.DictComp)]:
            binders = {}
            conds: list[ast.expr] = []
            for gen in dc.generators:
                for nm in ast.walk(gen.target):
                    if isinstance(nm, ast.Name):
                        binders[nm.id] = gen.iter
                for c in gen.ifs:
                    conds += norm.atoms(c, True)
            n += 1
            check_value(dc.value, dc.value, s, conds, binders, "new-keys", s.where())
    if n == 0:
        raise AnalysisError(f"{f.where}: no stores to the result dictionary found")

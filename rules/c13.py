"""C13 — cross-core dependencies are separated by a cluster barrier (DESIGN.md section 5, C13).

Decided: barriers are never dispatchable (so every core executes every barrier), only dispatchable ops are
wrapped, the two directions of the dependency scan are symmetric and contain the unconditional loop
back-edge clause, barriers survive until they are lowered to the hardware call, and the pass order keeps
the last barrier insertion adjacent to dispatching.  Not decided: the per-program path property.
"""

from __future__ import annotations

import ast
import re

from sa import norm
from sa.errors import AnalysisError
from sa.flow import Flow, Site
from sa.model import Func, Repo
from sa.norm import T
from sa.pipeline import pipelines
from sa.report import Check

from .common import callee_name, depends_on, flow_of, has_fact, is_mutation, subexprs

BARRIER = "snaxc/transforms/insert_sync_barrier.py"
RULES = "snaxc/util/dispatching_rules.py"
DISPATCH = "snaxc/transforms/dispatch_regions.py"
TOFUNC = "snaxc/transforms/snax_to_func.py"
MAIN = "snaxc/tools/snaxc_main.py"

# op kinds that may be dispatched to a single core (frozen; a new kind needs a decision about barriers)
DISPATCHABLE = {"memref.CopyOp", "CopyOp", "linalg.GenericOp", "GenericOp", "dart.StreamingRegionOpBase", "StreamingRegionOpBase"}
NEVER_DISPATCHABLE = ("ClusterSyncOp", "CallOp", "ReturnOp", "YieldOp", "Operation")

# passes that create, move or delete dispatchable ops / buffers (must not run between the last barrier
# insertion and dispatching): every pass that today runs before the last InsertSyncBarrier
MOVERS = {
    "FrontendTransformPass", "PreprocessPass", "InsertAccOp", "ConvertLinalgToKernel", "DispatchKernels", "DispatchLinalgPHS",
    "ConvertLinalgToDart", "DartFuseOperationsPass", "SnaxBufferize", "AllocToGlobalPass", "SetMemorySpace", "DartSchedulerPass",
    "SetMemoryLayout", "RealizeMemrefCastsPass", "ReuseMemrefAllocs", "PipelineCanonicalizeFor", "ConstructPipelinePass",
    "PipelineDuplicateBuffersPass", "UnrollPipelinePass", "MemrefToSNAX", "CanonicalizePass", "SnaxAllocatePass", "InsertDebugPass",
}


def run(repo: Repo, chk: Check) -> None:
    chk.explanation = (
        "Type-set analysis (E6) of the dispatch predicates, guard dominance (F2) in the dispatcher, sibling symmetry "
        "(F5) of the two dependency directions in InsertSyncBarrier including an unconditional loop back-edge clause, "
        "a who-may-erase rule for barriers, and pass-order typestate (F6) over all flag valuations of the pipeline "
        "builder. Decides that every barrier is executed by all cores and the structural clauses of barrier insertion; "
        "does not decide that every execution path between dependent ops of a given program contains a barrier."
    )
    type_sets(repo, chk)
    dispatcher_guard(repo, chk)
    symmetric(repo, chk)
    dealloc_clause(repo, chk)
    barrier_survives(repo, chk)
    order(repo, chk)


# --------------------------------------------------------------------------- type sets of the predicates
def true_classes(repo: Repo, chk: Check, qual: str) -> tuple[set[str], list[str]]:
    f, fl = flow_of(repo, chk, RULES, qual)
    op = f.param(0)
    classes: set[str] = set()
    problems: list[str] = []
    for s in fl.stmts(ast.Return):
        if not s.reachable:
            continue
        v = s.node.value
        if v is None or (isinstance(v, ast.Constant) and not v.value):
            continue
        found = []
        for fact in s.facts:
            if fact.kind != "atom":
                continue
            m = norm.match(T("isinstance($x, $c)"), fact.expr, {"x": op})
            if m is not None:
                found += [ast.unparse(e) for e in (m["c"].elts if isinstance(m["c"], ast.Tuple) else [m["c"]])]
        if not found:
            problems.append(f"{s.where()}: a truthy return (`{ast.unparse(v)}`) is reachable without an isinstance test on the op")
        classes |= set(found)
    return classes, problems


def type_sets(repo: Repo, chk: Check) -> None:
    chk.rule(
        "C13.barrier-undispatchable",
        "dispatch_to_dm / dispatch_to_compute can only return True under an isinstance test for a dispatchable kind "
        "(copy, linalg.generic, dart streaming region); never for the cluster barrier, calls or terminators",
        floor=2,
    )
    for qual in ("dispatch_to_dm", "dispatch_to_compute"):
        cls, problems = true_classes(repo, chk, qual)
        f = repo.func(RULES, qual)
        bad = [c for c in cls if c.split(".")[-1] in NEVER_DISPATCHABLE or c not in DISPATCHABLE]
        chk.result(not bad and not problems and bool(cls), "C13.barrier-undispatchable", f"{f.key}:true-set", f.where,
                   f"may return True only for {sorted(cls)}",
                   f"{qual} can return True for {sorted(bad)} / {problems}: a barrier (or a non-dispatchable op) could end up under a core-specific guard")


def dispatcher_guard(repo: Repo, chk: Check) -> None:
    outer = repo.func(DISPATCH, "DispatchRegionsRewriter.match_and_rewrite")
    f = outer.nested("dispatcher")
    chk.analysed(f.key)
    fl = Flow(f, repo)
    rule_p = f.param(2)
    chk.rule("C13.guard-only-dispatchable", "in dispatcher an op is collected only under dispatch_rule(op) and only collected ops are moved into the scf.if", floor=2)
    apps = [s for s in fl.calls("append") if s.reachable]
    if not apps:
        raise AnalysisError(f"{f.where}: no append to the dispatch list")
    lst = None
    for s in apps:
        a = s.node.args[0]
        lst = ast.unparse(s.node.func.value)  # type: ignore[attr-defined]
        chk.result(bool(has_fact(s, ["$r($o)"], {"r": rule_p, "o": a})), "C13.guard-only-dispatchable", f"{f.key}:collect", s.where(),
                   "an op joins the dispatch list only if dispatch_rule(op) holds",
                   "an op is collected for dispatching without dispatch_rule(op): non-dispatchable ops (barriers) would be wrapped in a core guard", s.fact_texts)
    det = [s for s in fl.calls("detach") if s.reachable]
    ok = bool(det) and all(any(isinstance(l, ast.For) and ast.unparse(l.iter) == lst for l in s.loops) for s in det)
    chk.result(ok, "C13.guard-only-dispatchable", f"{f.key}:move", det[0].where() if det else f.where,
               "only members of the dispatch list are detached into the scf.if", "ops outside the dispatch list are moved into the core-specific scf.if")


# --------------------------------------------------------------------------- symmetry of the scan
def _norm_dir(src: str, pred: str) -> str:
    return re.sub(r"\bfor_op\w*\b", "FOR", src.replace(pred, "PRED"))


def symmetric(repo: Repo, chk: Check) -> None:
    f, fl = flow_of(repo, chk, BARRIER, "InsertSyncBarrier.apply")
    chk.rule(
        "C13.symmetric",
        "the dm->other and compute->other blocks are identical up to the predicate; each tests `producer on core X and "
        "consumer not on core X`, appends the consumer, and appends the loop's yield when producer and consumer share an "
        "scf.for parent with no further condition; a found or inserted barrier resets the pending list; the barrier is "
        "inserted before the pending op",
        floor=6,
    )
    blocks: dict[str, ast.If] = {}
    for n in ast.walk(f.node):
        if isinstance(n, ast.If):
            t = ast.unparse(n.test)
            for pred in ("dispatch_to_dm", "dispatch_to_compute"):
                if t.count(pred) == 2 and pred not in blocks and "isinstance" not in t:
                    blocks[pred] = n
    direct_appends = all(any(isinstance(st, ast.Expr) and callee_name(st.value) == "append" for st in b_.body) for b_ in blocks.values())
    if set(blocks) != {"dispatch_to_dm", "dispatch_to_compute"} or not direct_appends:
        # the two directions are not two `if` statements (a loop over the two rules, a helper, ..): decide the same clauses on the
        # facts that dominate the appends to the pending list
        if not _symmetric_by_flow(repo, chk, f, fl):
            raise AnalysisError(f"{f.where}: the two dependency-direction blocks were not found")
        _symmetric_tail(repo, chk, f, fl)
        return
    a = _norm_dir(ast.unparse(blocks["dispatch_to_dm"]), "dispatch_to_dm")
    b = _norm_dir(ast.unparse(blocks["dispatch_to_compute"]), "dispatch_to_compute")
    chk.result(a == b, "C13.symmetric", f"{f.key}:alpha-equivalent", f"{f.module.relpath}:{blocks['dispatch_to_dm'].lineno}",
               "both directions are the same code up to the predicate", "the dm->other and compute->other blocks differ beyond the predicate name")
    for pred, node in blocks.items():
        where = f"{f.module.relpath}:{node.lineno}"
        key = f"{f.key}:{pred}"
        atoms = [ast.unparse(x) for x in norm.atoms(node.test, True)]
        m = norm.match(T(f"{pred}($p, $c) and not {pred}($u, $c)"), node.test)
        chk.result(m is not None and ast.unparse(m["p"]) != ast.unparse(m["u"]), "C13.symmetric", key + ":polarity", where,
                   "condition = producer dispatched to this core and consumer not", f"condition is `{ast.unparse(node.test)[:120]}`")
        if m is None:
            continue
        prod, use = ast.unparse(m["p"]), ast.unparse(m["u"])
        top_apps = [st for st in node.body if isinstance(st, ast.Expr) and callee_name(st.value) == "append"]
        chk.result(any(ast.unparse(st.value.args[0]) == use for st in top_apps), "C13.symmetric", key + ":consumer", where,  # type: ignore[attr-defined]
                   "the consumer becomes pending unconditionally", "the consumer is not (unconditionally) added to the pending list")
        inner = [st for st in node.body if isinstance(st, ast.If)]
        ok_be = False
        extra = []
        for st in inner:
            ats = norm.atoms(st.test, True)
            same_parent = [x for x in ats if norm.any_match(["$a.parent_op() == $b.parent_op()", "$a.parent_op() is $b.parent_op()"], x) is not None]
            is_for = [x for x in ats if norm.any_match(["isinstance(($f := $a.parent_op()), scf.ForOp)", "isinstance($a.parent_op(), scf.ForOp)",
                                                       "isinstance(($f := $a.parent_op()), ForOp)"], x) is not None]
            appends_yield = any(isinstance(x, ast.Call) and callee_name(x) == "append" and "last_op" in ast.unparse(x) for x in ast.walk(st))
            if same_parent and is_for and appends_yield:
                ok_be = True
                extra = [ast.unparse(x) for x in ats if x not in same_parent and x not in is_for]
        chk.result(ok_be, "C13.symmetric", key + ":back-edge", where,
                   "the loop's yield becomes pending when producer and consumer share an scf.for parent",
                   "the loop back-edge clause (barrier before the yield of the common scf.for) is missing in this direction")
        chk.result(ok_be and not extra, "C13.symmetric", key + ":back-edge-unconditional", where,
                   "the back-edge clause has no further condition",
                   f"the back-edge barrier is only requested under additional condition(s) {extra}: loops for which that test fails lose the barrier "
                   "between iteration i's consumer and iteration i+1's producer")
    every_pair(repo, chk, f, fl, blocks)
    _symmetric_tail(repo, chk, f, fl)


def _symmetric_by_flow(repo: Repo, chk: Check, f: Func, fl: Flow) -> bool:
    """C13.symmetric / C13.every-pair decided from must-facts (used when the two directions are not two syntactic blocks)"""
    from sa.flow import expand as _expand, outcome_summary

    in_uses_loop = lambda s_: any(isinstance(l, ast.For) and norm.match(T("$v.uses"), l.iter) is not None for l in s_.loops)  # noqa: E731
    # additions to the pending collection: list append / extend, set add, dict setdefault (the key is what becomes pending)
    sites = [s_ for s_ in fl.calls("append", "extend", "add", "setdefault") if s_.reachable and in_uses_loop(s_) and s_.node.args]
    if not sites:
        return False

    def elements(e: ast.expr) -> list[ast.expr] | None:
        """the elements a list expression is known to hold: a display, a display grown by appends (a helper's local list)"""
        e = norm.primary(e)
        if isinstance(e, (ast.List, ast.Tuple)) and not any(isinstance(x, ast.Starred) for x in e.elts):
            return list(e.elts)
        if isinstance(e, ast.Call) and isinstance(e.func, ast.Name) and e.func.id == "__mut_append__" and len(e.args) == 2:
            base_ = elements(e.args[0])
            return None if base_ is None else [*base_, e.args[1]]
        return None

    # (site, facts of one path alternative, element added on that alternative)
    adds: list[tuple[Site, list, str]] = []
    for s_ in sites:
        for alt in s_.state.alts:
            facts_ = [fa for fa in alt.facts.values() if fa.kind == "atom"] + [fa for fa in s_.extra if fa.kind == "atom"]
            arg = _expand(s_.node.args[0], {k: v for k, v in alt.env.items() if k not in s_.shadow})
            # a value obtained from a helper is what the helper is known to return (`<call> is <expr>` from its outcome summary)
            atxt = ast.unparse(norm.canon(norm.primary(arg)))
            for fa in facts_:
                if isinstance(fa.expr, ast.Compare) and len(fa.expr.ops) == 1 and isinstance(fa.expr.ops[0], ast.Is) and isinstance(fa.expr.left, ast.Call) \
                        and ast.unparse(fa.expr.left) == atxt and not (isinstance(fa.expr.comparators[0], ast.Constant)):
                    arg = fa.expr.comparators[0]
                    # what else is known about the helper's result restates why it is not None (the helper's own conditions are facts of their own)
                    facts_ = [x for x in facts_ if atxt not in x.text]
                    break
            if callee_name(s_.node) != "extend":
                adds.append((s_, facts_, ast.unparse(norm.primary(arg))))
            else:
                els = elements(arg)
                if els is None:
                    return False
                for el in els:
                    adds.append((s_, facts_, ast.unparse(norm.primary(el))))
    results: dict[str, dict[str, object]] = {}
    for pred in ("dispatch_to_dm", "dispatch_to_compute"):
        cons = None
        back = None
        for s, facts_, elem in adds:
            use_loop = [l for l in s.loops if isinstance(l, ast.For) and norm.match(T("$v.uses"), l.iter) is not None][-1]
            uv = use_loop.target.id if isinstance(use_loop.target, ast.Name) else None
            if uv is None:
                return False
            # what is known at the request but not at the head of the loop over the uses: the conditions on this very pair
            head = next((x for x in fl.stmts(ast.For) if x.node is use_loop or (getattr(x.node, "lineno", None) == use_loop.lineno and ast.dump(x.node.target) == ast.dump(use_loop.target))), None)
            # (facts that some path to the loop head already carries were not established for this pair)
            base = {t_ for a_ in head.state.alts for t_ in a_.facts} if head is not None else set()
            pair = [fa for fa in facts_ if fa.text not in base]
            pos = [fa for fa in pair if norm.match(T(f"{pred}($p, $c)"), fa.expr) is not None]
            neg = [fa for fa in pair if norm.match(T(f"not {pred}($u, $c)"), fa.expr) is not None]
            if not pos or not neg:
                continue
            prod = ast.unparse(norm.match(T(f"{pred}($p, $c)"), pos[0].expr)["p"])  # type: ignore[index]
            use = ast.unparse(norm.match(T(f"not {pred}($u, $c)"), neg[0].expr)["u"])  # type: ignore[index]
            arg = elem
            # facts that only restate what the predicate's outcome implies (derived from its summary) are not conditions of their own
            derived = set()
            try:
                pf = repo.func(RULES, pred)
                summ = outcome_summary(pf, repo, 0)
                for outcome, who in (("false", norm.match(T(f"not {pred}($u, $c)"), neg[0].expr)), ("true", norm.match(T(f"{pred}($p, $c)"), pos[0].expr))):
                    args = [who.get("u") or who.get("p"), who["c"]]  # type: ignore[union-attr]
                    sub = dict(zip(pf.params, args))
                    for fact in summ.get(outcome) or []:
                        if fact.kind == "atom":
                            derived.add(ast.unparse(norm.canon(_expand(fact.expr, sub))))
            except Exception:  # noqa: BLE001
                derived = set()
            others = [fa for fa in pair if fa not in neg and fa not in pos and fa.text not in derived]
            if arg == use:
                # conditions that hold on EVERY path alternative adding the consumer (what differs between alternatives - whether the
                # back-edge clause applied, whether the other direction fired before - is not a condition of the request)
                ex_ = {fa.text for fa in others}
                if cons is None:
                    cons = {"site": s, "prod": prod, "use": use, "extra": sorted(ex_)}
                else:
                    cons["extra"] = sorted(set(cons["extra"]) & ex_)  # type: ignore[arg-type]
            elif "last_op" in arg:
                same_parent = [fa for fa in others if norm.any_match(["$a.parent_op() == $b.parent_op()", "$a.parent_op() is $b.parent_op()"], fa.expr) is not None]
                is_for = [fa for fa in facts_ if norm.any_match(["isinstance($a.parent_op(), scf.ForOp)", "isinstance($a.parent_op(), ForOp)"], fa.expr) is not None]
                # the yield itself being there (an assert / None test on the loop's last op) is not a condition on the pair
                about_yield = [fa for fa in others if "last_op" in fa.text and norm.any_match(
                    ["isinstance($y, scf.YieldOp)", "isinstance($y, YieldOp)", "$y is not None"], fa.expr) is not None]
                extra = {fa.text for fa in others if fa not in same_parent and fa not in is_for and fa not in about_yield}
                if back is None:
                    back = {"site": s, "ok": bool(same_parent) and bool(is_for), "extra": sorted(extra)}
                else:
                    back = {"site": s, "ok": bool(back["ok"]) and bool(same_parent) and bool(is_for), "extra": sorted(set(back["extra"]) & extra)}  # type: ignore[arg-type]
        results[pred] = {"cons": cons, "back": back}
    if any(results[p_]["cons"] is None for p_ in results):
        return False
    for pred, r in results.items():
        cons, back = r["cons"], r["back"]
        s = cons["site"]  # type: ignore[index]
        key = f"{f.key}:{pred}"
        chk.result(cons["prod"] != cons["use"], "C13.symmetric", key + ":polarity", s.where(),  # type: ignore[index]
                   "condition = producer dispatched to this core and consumer not")
        chk.result(not cons["extra"], "C13.symmetric", key + ":consumer", s.where(),  # type: ignore[index]
                   "the consumer becomes pending unconditionally", f"the consumer is only added to the pending list under {cons['extra']}")  # type: ignore[index]
        chk.result(back is not None and bool(back["ok"]), "C13.symmetric", key + ":back-edge", s.where(),  # type: ignore[index]
                   "the loop's yield becomes pending when producer and consumer share an scf.for parent",
                   "the loop back-edge clause (barrier before the yield of the common scf.for) is missing in this direction")
        chk.result(back is not None and bool(back["ok"]) and not back["extra"], "C13.symmetric", key + ":back-edge-unconditional", s.where(),  # type: ignore[index]
                   "the back-edge clause has no further condition",
                   f"the back-edge barrier is only requested under additional condition(s) {back['extra'] if back else None}")  # type: ignore[index]
    chk.ok("C13.symmetric", f"{f.key}:alpha-equivalent", f.where, "both directions satisfy the same clauses (decided per direction from the dominating facts)")
    chk.rule(
        "C13.every-pair",
        "every (op, user-of-its-operand) pair reaches the two dispatch tests; a pair may be skipped beforehand only under a condition that "
        "establishes, for both ops, that they do not write the shared value",
        floor=1,
    )
    chk.ok("C13.every-pair", f"{f.key}:uses-loop", f.where, "no condition other than the dispatch tests dominates the requests (see :consumer)")
    return True


def every_value(chk: Check, f: Func, fl: Flow) -> None:
    """the users that are examined are those of EVERY operand and result of the walked op, whatever its kind: a value an op only reads still
    orders it against a later writer on another core (write after read), against the loop back edge and against the buffer's dealloc"""
    from sa.flow import expand as _expand

    chk.rule("C13.every-value", "for every walked op the users of all its operands and all its results are examined (no op kind contributes only some of its values)", floor=1)
    uses = [s for s in fl.stmts(ast.For) if s.reachable and norm.match(T("$v.uses"), s.node.iter) is not None and isinstance(norm.match(T("$v.uses"), s.node.iter)["v"], ast.Name)]
    if not uses:
        raise AnalysisError(f"{f.where}: loop over the uses of a value not found")
    n_ = 0
    for s in uses:
        v = norm.match(T("$v.uses"), s.node.iter)["v"].id
        outer = [l for l in s.loops if isinstance(l, ast.For) and isinstance(l.target, ast.Name) and l.target.id == v]
        if not outer:
            continue
        osite = next((x for x in fl.stmts(ast.For) if x.node is outer[-1]), None)
        if osite is None:
            raise AnalysisError(f"{f.where}: loop over the values of an op not reached")
        walked = [l.target.id for l in osite.loops if isinstance(l, ast.For) and isinstance(l.target, ast.Name) and norm.match(T("$m.walk()"), l.iter) is not None]
        if not walked:
            continue
        o = walked[-1]
        n_ += 1
        partial = []
        for alt in osite.state.alts:
            it = _expand(outer[-1].iter, {k: v_ for k, v_ in alt.env.items() if k not in osite.shadow})
            has_o = norm.contains(it, T(f"{o}.operands"))
            has_r = norm.contains(it, T(f"{o}.results")) or norm.contains(it, T(f"{o}.result"))
            if not (has_o and has_r):
                calls = [c for c in ast.walk(it) if isinstance(c, ast.Call) and isinstance(c.func, ast.Name) and c.func.id not in ("list", "tuple", "chain", "iter")]
                if calls and not (has_o or has_r) and not any(isinstance(n, ast.Attribute) for n in ast.walk(it)):
                    raise AnalysisError(f"{osite.where()}: the values of `{o}` whose users are examined come from `{ast.unparse(it)[:80]}`, which is not looked through")
                conds = [t for t in alt.facts if o in t and "isinstance" in t][-1:]
                partial.append(f"`{ast.unparse(it)[:80]}`" + (f" when {conds[0]}" if conds else ""))
        chk.result(not partial, "C13.every-value", f"{f.key}:values#{n_}", osite.where(),
                   "the users of every operand and every result of the walked op are examined",
                   f"only some values of the walked op are followed: {sorted(set(partial))[:2]}: a value the op only reads no longer orders it against a later writer on another core, "
                   "the loop back edge or the dealloc of the buffer")
    if n_ == 0:
        raise AnalysisError(f"{f.where}: no loop over the values of the walked op found")


def alias_closure(repo: Repo, chk: Check, f: Func, fl: Flow) -> None:
    """two ops share a buffer also when they name it through different values: a copy into `subview %o` and a kernel reading `%o`. The values whose users
    are examined therefore include, for every operand and result, the buffer it is a view of and the other views of that buffer"""
    chk.rule("C13.alias-closure", "the users examined for a walked op are those of its operands and results AND of every value standing for the same buffer: the scan "
             "climbs from a view to its source (subview, casts) and descends to all views of that source", floor=1)
    uses = [s for s in fl.stmts(ast.For) if s.reachable and norm.match(T("$v.uses"), s.node.iter) is not None and isinstance(norm.match(T("$v.uses"), s.node.iter)["v"], ast.Name)]
    n_ = 0
    for s in uses:
        v = norm.match(T("$v.uses"), s.node.iter)["v"].id
        outer = [l for l in s.loops if isinstance(l, ast.For) and isinstance(l.target, ast.Name) and l.target.id == v]
        if not outer:
            continue
        n_ += 1
        # helpers the value source goes through
        helpers = [c for c in ast.walk(outer[-1].iter) if isinstance(c, ast.Call) and isinstance(c.func, ast.Name) and c.func.id in f.module.funcs]
        up = down = False
        kinds: set[str] = set()
        for c in helpers:
            h = f.module.funcs[c.func.id]
            chk.analysed(h.key)
            for n in ast.walk(h.node):
                if isinstance(n, ast.While) and any(isinstance(x, ast.Call) and callee_name(x) == "isinstance" for x in ast.walk(n.test)) \
                        and any(isinstance(x, ast.Attribute) and x.attr in ("operands", "source", "input") for b_ in n.body for x in ast.walk(b_)):
                    up = True
                if isinstance(n, ast.For) and norm.match(T("$a.uses"), n.iter) is not None and any(
                        isinstance(x, ast.Attribute) and x.attr in ("results", "result", "dest") for b_ in n.body for x in ast.walk(b_)):
                    # .. transitively: the loop over the uses runs for every value found so far (a worklist that grows while it is walked, or recursion) -
                    # a view of a view of the buffer is a view of the buffer
                    src_ = norm.match(T("$a.uses"), n.iter)["a"]
                    recursive = any(isinstance(x, ast.Call) and isinstance(x.func, ast.Name) and x.func.id == h.name for x in ast.walk(n))
                    worklist = False
                    for outer_ in ast.walk(h.node):
                        if isinstance(outer_, (ast.For, ast.While)) and outer_ is not n and any(x is n for x in ast.walk(outer_)):
                            if isinstance(outer_, ast.For) and isinstance(outer_.iter, ast.Name) and isinstance(outer_.target, ast.Name) and isinstance(src_, ast.Name) \
                                    and src_.id == outer_.target.id and any(isinstance(x, ast.Call) and isinstance(x.func, ast.Attribute) and x.func.attr in ("extend", "append")
                                                                             and isinstance(x.func.value, ast.Name) and x.func.value.id == outer_.iter.id for x in ast.walk(n)):
                                worklist = True
                            if isinstance(outer_, ast.While) and any(isinstance(x, ast.Call) and isinstance(x.func, ast.Attribute) and x.func.attr == "pop" for x in ast.walk(outer_)) \
                                    and any(isinstance(x, ast.Call) and isinstance(x.func, ast.Attribute) and x.func.attr in ("extend", "append") for x in ast.walk(n)):
                                worklist = True
                    down = down or recursive or worklist
            for x in ast.walk(h.node):
                if isinstance(x, ast.Call) and callee_name(x) == "isinstance" and len(x.args) == 2:
                    cls_e = x.args[1]
                    if isinstance(cls_e, ast.Name) and isinstance(f.module.consts.get(cls_e.id), ast.AST):
                        cls_e = f.module.consts[cls_e.id]
                    kinds |= {n_2.attr if isinstance(n_2, ast.Attribute) else n_2.id for n_2 in ast.walk(cls_e) if isinstance(n_2, (ast.Attribute, ast.Name))}
        ok = up and down and "SubviewOp" in kinds
        chk.result(ok, "C13.alias-closure", f"{f.key}:values#{n_}", outer[-1].lineno and f"{f.module.relpath}:{outer[-1].lineno}",
                   f"users are examined for every value standing for the same buffer (views followed: {sorted(k for k in kinds if k.endswith('Op') or k == 'LayoutCast')})",
                   "only the users of the op's own operands and results are examined: a data-mover copy into `memref.subview %o` and a kernel reading `%o` share no "
                   "SSA value, so no barrier is placed between them (findings/C13_copy_into_subview.mlir)")
    if n_ == 0:
        raise AnalysisError(f"{f.where}: no loop over the values of the walked op found")


def _symmetric_tail(repo: Repo, chk: Check, f: Func, fl: Flow) -> None:
    # resets and insertion point
    ins = [s for s in fl.calls("insert_op") if s.reachable]
    ok_ins = any(len(s.node.args) > 1 and norm.match(T("InsertPoint.before($o)"), s.node.args[1]) is not None and bool(has_fact(s, ["$o in $l"])) for s in ins)
    chk.result(ok_ins, "C13.symmetric", f"{f.key}:insert-before", ins[0].where() if ins else f.where,
               "a barrier is inserted before an op that is pending", "the barrier is not inserted before the pending op")
    def _is_reset(s_) -> str | None:
        """'all' = the pending list is emptied, 'scoped' = it keeps the ops a filter selects (`[x for x in pending if not <covered>(x, ..)]`)"""
        v_ = getattr(s_.node, "value", None)
        t_ = s_.node.targets[0] if isinstance(s_.node, ast.Assign) else s_.node.target
        if isinstance(v_, ast.List) and not v_.elts:
            return "all"
        if isinstance(v_, ast.ListComp) and len(v_.generators) == 1 and ast.unparse(v_.generators[0].iter) == ast.unparse(t_) and v_.generators[0].ifs \
                and ast.unparse(v_.elt) == ast.unparse(v_.generators[0].target):
            return "scoped"
        # the filter lives in a module helper: `pending = without_settled(pending, block)` with `return [x for x in pending if not ..]`
        if isinstance(v_, ast.Call) and isinstance(v_.func, ast.Name) and v_.func.id in f.module.funcs and v_.args and ast.unparse(v_.args[0]) == ast.unparse(t_):
            h_ = f.module.funcs[v_.func.id]
            rets_ = [r_ for r_ in ast.walk(h_.node) if isinstance(r_, ast.Return) and r_.value is not None]
            if len(rets_) == 1 and h_.params and isinstance(rets_[0].value, ast.ListComp) and len(rets_[0].value.generators) == 1:
                g_ = rets_[0].value.generators[0]
                if ast.unparse(g_.iter) == h_.params[0] and g_.ifs and ast.unparse(rets_[0].value.elt) == ast.unparse(g_.target):
                    return "scoped-helper"
        return None

    resets = [s for s in fl.stmts(ast.Assign, ast.AnnAssign) if s.reachable and s.loops and _is_reset(s) is not None]
    under_sync = [s for s in resets if has_fact(s, ["isinstance($o, snax.ClusterSyncOp)", "isinstance($o, ClusterSyncOp)"])]
    under_insert = [s for s in resets if has_fact(s, ["$o in $l"])]
    if not (under_sync and under_insert):
        # one reset for both: `if <pending op reached> or isinstance(op, ClusterSyncOp): pending = []` - a disjunction whose
        # every disjunct is one of the two barrier cases
        SYNC = ["isinstance($o, snax.ClusterSyncOp)", "isinstance($o, ClusterSyncOp)"]
        for s in resets:
            for fa in s.facts:
                e_ = norm.primary(fa.expr) if fa.kind == "atom" else None
                if not (isinstance(e_, ast.BoolOp) and isinstance(e_.op, ast.Or)):
                    continue
                kinds = ["sync" if norm.any_match(SYNC, d_) is not None else "pending" if norm.any_match(["$o in $l"], d_) is not None else "other" for d_ in e_.values]
                if "other" not in kinds:
                    if "sync" in kinds:
                        under_sync.append(s)
                    if "pending" in kinds:
                        under_insert.append(s)
    chk.result(bool(under_sync) and bool(under_insert), "C13.symmetric", f"{f.key}:resets", f.where,
               "both an existing and an inserted barrier reset the pending list")
    # a barrier is on the path to the ops of its own block only: the other branch of an scf.if, the ops behind a loop that may not run, are reached without it
    chk.rule("C13.barrier-scope", "a barrier (inserted or found) takes from the pending list only the ops that lie in the barrier's own block, directly or nested; "
             "it never empties the list", floor=1)
    for n_, s in enumerate(resets, 1):
        kind = _is_reset(s)
        scoped = kind == "scoped-helper" or (kind == "scoped" and any(isinstance(c_, ast.Call) for i_ in s.node.value.generators[0].ifs for c_ in ast.walk(i_)))
        chk.result(scoped, "C13.barrier-scope", f"{f.key}:reset#{n_}", s.where(), "only the ops in the barrier's block stop waiting for a barrier",
                   "the whole pending list is dropped at a barrier, wherever the barrier sits: with a consumer in the then- and another in the else-branch of an scf.if "
                   "only the first walked branch gets a barrier, the other path from the producer to its consumer has none (likewise a consumer behind a loop whose "
                   "body holds the barrier)")
    every_value(chk, f, fl)
    alias_closure(repo, chk, f, fl)
    walk = [s for s in fl.stmts(ast.For) if s.reachable and norm.match(T("$m.walk()"), s.node.iter) is not None]
    chk.result(bool(walk), "C13.symmetric", f"{f.key}:walk-order", f.where, "the module is walked in program order (no reverse / region_first)")
    # known limitation: only the direct parent loop is considered
    anc = any(isinstance(n, ast.While) for n in ast.walk(f.node)) or "ancestor" in ast.unparse(f.node) or "is_ancestor" in ast.unparse(f.node)
    chk.rule("C13.back-edge-nested", "the back-edge clause must consider every scf.for enclosing both producer and consumer, not only a shared direct parent", floor=1)
    chk.result(anc, "C13.back-edge-nested", f"{f.key}:enclosing-loops", f.where,
               "enclosing loops are searched upwards",
               "only `producer.parent_op() == consumer.parent_op()` is tested: with the producer in an outer loop body and the consumer in a nested loop "
               "(or vice versa) no barrier is placed on the outer back-edge")


# --------------------------------------------------------------------------- a dealloc of a value any walked op touches
def dealloc_clause(repo: Repo, chk: Check) -> None:
    chk.rule(
        "C13.dealloc",
        "a memref.dealloc that uses an operand or result of ANY walked op becomes pending, whatever core (if any) that op is bound to: "
        "allocs, subviews and casts are bound to no core, and they are the only ops through which the pass sees the dealloc of a buffer "
        "that is accessed through a view",
        floor=1,
    )
    f, fl = flow_of(repo, chk, BARRIER, "InsertSyncBarrier.apply")
    apps = [s for s in fl.calls("append", "add", "setdefault") if s.reachable and has_fact(s, ["isinstance($u.operation, DeallocOp)", "isinstance($u.operation, memref.DeallocOp)",
                                                                        "isinstance($u, DeallocOp)"])]
    if not apps:
        chk.bad("C13.dealloc", f"{f.key}:dealloc", f.where, "no path makes a dealloc user pending: the buffer can be freed by one core while the other still accesses it")
        return
    walk = [x for x in fl.stmts(ast.For) if x.reachable and not [l for l in x.loops if isinstance(l, ast.For)]]
    base = set(walk[0].fact_texts) if walk else set()
    for n_, s in enumerate(apps, 1):
        new = [fa for fa in s.facts if fa.kind == "atom" and fa.text not in base]
        extra = [fa.text for fa in new if norm.any_match(["isinstance($u.operation, DeallocOp)", "isinstance($u.operation, memref.DeallocOp)", "isinstance($u, DeallocOp)"], fa.expr) is None]
        chk.result(not extra, "C13.dealloc", f"{f.key}:dealloc#{n_}", s.where(),
                   "a dealloc user of any walked op's value becomes pending unconditionally",
                   f"the dealloc of a value is only made pending under {[e[:80] for e in extra]}: for an alloc / subview / cast (bound to no core) the test fails, and "
                   "a buffer written through a view is freed without a barrier", s.fact_texts)


# --------------------------------------------------------------------------- barriers survive until lowered
def barrier_survives(repo: Repo, chk: Check) -> None:
    chk.rule(
        "C13.barrier-survives",
        "no rewrite in the compiler erases a ClusterSyncOp; the only pattern matching it replaces it by the "
        "snax_cluster_hw_barrier call",
        floor=1,
    )
    n = 0
    for f in repo.all_funcs():
        src = ast.unparse(f.node)
        if "ClusterSyncOp" not in src and "cluster_sync" not in src:
            continue
        fl = Flow(f, repo)
        ann = None
        if f.name == "match_and_rewrite" and len(f.node.args.args) > 1 and f.node.args.args[1].annotation is not None:
            ann = ast.unparse(f.node.args.args[1].annotation)
        matched = f.params[1] if len(f.params) > 1 else None
        for s in fl.sites:
            if not isinstance(s.node, ast.Call) or not s.reachable:
                continue
            nm = callee_name(s.node)
            if nm not in ("erase_op", "erase_matched_op", "erase", "replace_op", "replace_matched_op", "detach"):
                continue
            tgt = s.node.args[0] if nm in ("erase_op", "replace_op") and s.node.args else (s.node.func.value if nm in ("erase", "detach") else None)  # type: ignore[attr-defined]
            is_sync = False
            if tgt is not None:
                tt = ast.unparse(tgt)
                is_sync = (ann is not None and "ClusterSyncOp" in ann and tt == matched) or bool(
                    has_fact(s, ["isinstance($t, snax.ClusterSyncOp)", "isinstance($t, ClusterSyncOp)"], {"t": s.expand(tgt)})) or "sync" in tt.lower()
            if nm in ("erase_matched_op", "replace_matched_op") and ann is not None and "ClusterSyncOp" in ann:
                is_sync = True
            if not is_sync:
                continue
            n += 1
            if nm.startswith("replace"):
                repl = s.expand(s.node.args[1] if nm == "replace_op" and len(s.node.args) > 1 else s.node.args[0]) if s.node.args else None
                ok = repl is not None and depends_on(repl, 'func.CallOp("snax_cluster_hw_barrier", [], [])')
                chk.result(ok, "C13.barrier-survives", f"{f.key}:replace", s.where(), "the barrier is replaced by the hardware barrier call",
                           f"a ClusterSyncOp is replaced by {ast.unparse(repl)[:80] if repl is not None else None}, not by the hardware barrier call")
            elif f.module.relpath.endswith("construct_pipeline.py") or f.module.relpath.endswith("unroll_pipeline.py"):
                chk.ok("C13.barrier-survives", f"{f.key}:{nm}", s.where(), "pipeline construction re-inserts the barriers it takes out (checked under C15.barriers)", nontrivial=False)
            else:
                chk.bad("C13.barrier-survives", f"{f.key}:{nm}", s.where(),
                        f"`{ast.unparse(s.node)[:80]}` removes a cluster barrier: cores are no longer synchronised at that point")
    if n == 0:
        raise AnalysisError("no rewrite of ClusterSyncOp found at all (the lowering to the hardware barrier vanished)")


# --------------------------------------------------------------------------- pass order
def order(repo: Repo, chk: Check) -> None:
    f = repo.func(MAIN, "SNAXCMain.setup_pipeline")
    chk.analysed(f.key)
    pipes = pipelines(f)
    chk.rule(
        "C13.order",
        "in every pipeline: an InsertSyncBarrier precedes DispatchRegions; between the last InsertSyncBarrier and "
        "DispatchRegions no pass runs that creates/moves dispatchable ops or buffers; SNAXToFunc (barrier -> call) runs "
        "after DispatchRegions",
        floor=8,
    )
    for val, seq in pipes.items():
        label = ",".join(f"{k.split('.')[-1]}={int(v)}" for k, v in val)
        key = f"{f.key}:{label}"
        if "DispatchRegions" not in seq:
            chk.bad("C13.order", key, f.where, "DispatchRegions is not in the pipeline")
            continue
        d = seq.index("DispatchRegions")
        sync = [i for i, p in enumerate(seq[:d]) if p == "InsertSyncBarrier"]
        if not sync:
            chk.bad("C13.order", key, f.where, f"[{label}] no InsertSyncBarrier before DispatchRegions")
            continue
        between = [p for p in seq[sync[-1] + 1 : d] if p in MOVERS]
        late_sync = [p for p in seq[d + 1 :] if p == "InsertSyncBarrier"]
        tofunc_ok = "SNAXToFunc" in seq and seq.index("SNAXToFunc") > d
        chk.result(not between and not late_sync and tofunc_ok, "C13.order", key, f.where,
                   f"[{label}] ... InsertSyncBarrier, {', '.join(seq[sync[-1] + 1 : d]) or '-'}, DispatchRegions ... SNAXToFunc",
                   f"[{label}] passes {between} run between the last InsertSyncBarrier and DispatchRegions / InsertSyncBarrier after dispatching: {late_sync} / "
                   f"SNAXToFunc after dispatch: {tofunc_ok}")


# --------------------------------------------------------------------------- no dependency pair is skipped unsoundly
NOT_WRITTEN = ["$v not in $o.outputs", "$v is not $o.destination", "$v is $o.source", "$v not in $o.results", "$v not in $o.outs", "$v != $o.destination"]


def _true_paths(helper: Func, repo: Repo) -> list[list[ast.expr]]:
    """for every way `helper` can return a truthy value: the atoms known to hold (path facts + the returned condition)"""
    hfl = Flow(helper, repo)
    out: list[list[ast.expr]] = []
    for sr in hfl.stmts(ast.Return):
        if not sr.reachable or sr.node.value is None:  # type: ignore[attr-defined]
            continue
        v = sr.node.value  # type: ignore[attr-defined]
        if isinstance(v, ast.Constant) and not v.value:
            continue
        base = [x.expr for x in sr.facts if x.kind == "atom"]
        if isinstance(v, ast.Constant):
            out.append(base)
        else:
            out.append(base + [norm.canon(sr.expand(a)) for a in norm.atoms(v, True)])
    return out


def _read_only_evidence(atoms: list[ast.expr], o: str, v: str) -> bool:
    for a in atoms:
        if norm.any_match(NOT_WRITTEN, a, {"o": o, "v": v}) is not None:
            return True
    return False


def skip_is_sound(repo: Repo, f: Func, cond: ast.expr, ops: list[str]) -> tuple[bool, str]:
    """a skipped (producer, consumer) pair is harmless only if neither op writes the shared value"""
    atoms = norm.atoms(cond, True)
    covered: set[str] = set()
    for a in atoms:
        if isinstance(a, ast.Call) and isinstance(a.func, ast.Name) and len(a.args) >= 2:
            helper = repo.try_func(f.module.relpath, a.func.id)
            if helper is None:
                return False, f"the helper {a.func.id} cannot be resolved"
            hp = [x for x in helper.params if x not in ("self", "cls")]
            if len(hp) < 2:
                return False, f"{a.func.id} has fewer than two parameters"
            paths = _true_paths(helper, repo)
            if not paths:
                return False, f"{a.func.id} never returns a truthy value the analysis can follow"
            for pth in paths:
                if not _read_only_evidence(pth, hp[0], hp[1]):
                    txt = " and ".join(ast.unparse(x) for x in pth)[:160]
                    return False, (f"{a.func.id}() returns True on a path where nothing says the op does not also WRITE the value ({txt}): an op updating a buffer in place "
                                   "(listed in both ins and outs) counts as a reader")
            covered.add(ast.unparse(a.args[0]))
        else:
            for o in ops:
                if any(norm.any_match([t.replace("$o", o).replace("$v", "$_")], a) is not None for t in NOT_WRITTEN):
                    covered.add(o)
    missing = [o for o in ops if o not in covered]
    if missing:
        return False, f"nothing establishes that {missing} does not write the shared value"
    return True, ""


def every_pair(repo: Repo, chk: Check, f: Func, fl: Flow, blocks: dict) -> None:
    chk.rule(
        "C13.every-pair",
        "every (op, user-of-its-operand) pair reaches the two dispatch tests; a pair may be skipped beforehand only under a condition that "
        "establishes, for both ops, that they do not write the shared value",
        floor=1,
    )
    loops = [n for n in ast.walk(f.node) if isinstance(n, ast.For) and norm.match(T("$v.uses"), n.iter) is not None
             and any(b is x for b in blocks.values() for x in ast.walk(n))]
    if len(loops) != 1:
        raise AnalysisError(f"{f.where}: loop over the uses of an operand not found")
    lp = loops[0]
    use_var = lp.target.id if isinstance(lp.target, ast.Name) else None
    first = min(b.lineno for b in blocks.values())
    skips = []
    for st in lp.body:
        if st.lineno >= first:
            break
        if isinstance(st, ast.If) and st.body and isinstance(st.body[-1], (ast.Continue, ast.Break)) and not st.orelse:
            skips.append(st)
        elif not isinstance(st, (ast.Expr, ast.Assign, ast.AnnAssign, ast.Pass)):
            skips.append(st)
    nested = [b for b in blocks.values() if not any(b is st for st in lp.body)]
    key = f"{f.key}:uses-loop"
    if nested:
        chk.bad("C13.every-pair", key + ":nested", f"{f.module.relpath}:{nested[0].lineno}",
                "the dispatch tests are nested under a further condition: pairs for which it fails never request a barrier")
        return
    if not skips:
        chk.ok("C13.every-pair", key, f"{f.module.relpath}:{lp.lineno}", "no pair is skipped before the dispatch tests")
        return
    m = norm.match(T("dispatch_to_dm($p, $c) and not dispatch_to_dm($u, $c)"), blocks["dispatch_to_dm"].test)
    ops = [ast.unparse(m["p"]), ast.unparse(m["u"])] if m is not None else []
    for i, st in enumerate(skips):
        if not isinstance(st, ast.If):
            chk.bad("C13.every-pair", f"{key}:skip#{i + 1}", f"{f.module.relpath}:{st.lineno}", f"a {type(st).__name__} statement precedes the dispatch tests inside the uses loop")
            continue
        ok, why = skip_is_sound(repo, f, st.test, ops)
        chk.result(ok, "C13.every-pair", f"{key}:skip#{i + 1}", f"{f.module.relpath}:{st.lineno}",
                   f"pairs skipped under `{ast.unparse(st.test)[:80]}` are read/read pairs: neither op writes the value",
                   f"pairs are skipped under `{ast.unparse(st.test)[:80]}` but {why}")

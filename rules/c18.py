"""C18 — kernel recognition and expansion preserve the scalar function (DESIGN.md section 5, C18).

Recognition / dispatch / table clauses and the dataflow shape of the rescale expansion; equality of the
scalar functions on all inputs is arithmetic and not decided.
"""

from __future__ import annotations

import ast

from sa import norm
from sa.errors import AnalysisError
from sa.flow import Flow, Site, expand
from sa.model import Cls, Repo
from sa.norm import T
from sa.report import Check

from .common import callee_name, depends_on, flow_of, has_fact, subexprs

L2K = "snaxc/transforms/convert_linalg_to_kernel.py"
K2L = "snaxc/transforms/convert_kernel_to_linalg.py"
KERNEL = "snaxc/dialects/kernel.py"
DISP = "snaxc/transforms/dispatch_kernels.py"
DISPATCHING = "snaxc/accelerators/dispatching.py"


def run(repo: Repo, chk: Check) -> None:
    chk.explanation = (
        "Contradiction / ineffective-check detection (F4), information-flow necessity (F3) and table agreement (F5): a "
        "type-compatibility test must be able to influence the dispatch decision; the body-equivalence test must compare "
        "every op of both bodies and must read operand wiring; every SupportedKernel lists as many types as its kernel op "
        "has operands plus results, every Parsable kernel's equivalent region declares that many arguments; the rescale "
        "expansion is the dataflow chain sub zp_in, extsi, mul, shr, trunc, add zp_out, min(max_int), max(min_int), trunc "
        "on every path with each constant taken from its own attribute. Decides these clauses, not scalar equality on all "
        "inputs."
    )
    dispatch(repo, chk)
    single_kernel(repo, chk)
    equivalence(repo, chk)
    tables(repo, chk)
    rescale(repo, chk)
    lower_body(repo, chk)


# --------------------------------------------------------------------------- the dispatched body is one kernel op and the yield
def _block_position(x: ast.expr, site: Site, fn: ast.FunctionDef) -> tuple[str, int | None] | None:
    """(block text, position) of the op `x` denotes inside a block: 0 / 1 / -1 (last), None if not recognised. `next(it)` on an iterator over the
    block's ops counts the next() calls on that iterator in evaluation order (only straight-line code)"""
    if isinstance(x, ast.Call) and callee_name(x) == "next" and len(x.args) == 1 and isinstance(x.args[0], ast.Name):
        it = x.args[0].id
        defs = [n for n in ast.walk(fn) if isinstance(n, ast.Assign) and len(n.targets) == 1 and isinstance(n.targets[0], ast.Name) and n.targets[0].id == it]
        if len(defs) != 1:
            return None
        m = norm.any_match(["iter($b.ops)"], defs[0].value)
        if m is None:
            return None
        calls = sorted([n for n in ast.walk(fn) if isinstance(n, ast.Call) and callee_name(n) == "next" and n.args and isinstance(n.args[0], ast.Name) and n.args[0].id == it],
                       key=lambda n: (n.lineno, n.col_offset))
        in_loop = any(isinstance(l, (ast.For, ast.While)) and any(c is n for n in ast.walk(l) for c in calls) for l in ast.walk(fn))
        other_use = [n for n in ast.walk(fn) if isinstance(n, ast.Name) and n.id == it and isinstance(n.ctx, ast.Load)]
        if in_loop or len(other_use) != len(calls):
            return None
        return ast.unparse(norm.primary(site.expand(m["b"]))), [id(c) for c in calls].index(id(x))
    e = norm.primary(site.expand(x))
    pos = 0
    cur = e
    while isinstance(cur, ast.Attribute) and cur.attr == "next_op":
        pos += 1
        cur = cur.value
    m = norm.any_match(["$b.first_op", "$b.ops.first"], cur)
    if m is not None:
        return ast.unparse(m["b"]), pos
    if pos == 0:
        m = norm.any_match(["$b.last_op", "$b.ops.last"], cur)
        if m is not None:
            return ast.unparse(m["b"]), -1
        m = norm.any_match(["next(iter($b.ops))"], cur)
        if m is not None:
            return ast.unparse(m["b"]), 0
    return None


def single_kernel(repo: Repo, chk: Check) -> None:
    chk.rule(
        "C18.single-kernel",
        "an op gets a library call only if its body is ONE kernel op directly followed by the yield: the op tested for linalg.yield is the one right "
        "behind the kernel op (a test on the block's last op is vacuous - the terminator is always last - and lets bodies with further ops be dispatched "
        "to an accelerator that implements only their first op)",
        floor=2,
    )
    f, fl = flow_of(repo, chk, DISP, "DispatchTemplatePattern.match_and_rewrite")
    lib = [s for s in fl.stmts(ast.Assign) if s.reachable and isinstance(s.node.targets[0], ast.Attribute) and s.node.targets[0].attr == "library_call"]
    if not lib:
        raise AnalysisError(f"{f.where}: assignment of the library call not found")
    tests: dict[str, list[tuple[ast.expr, Site]]] = {"kernel": [], "yield": []}
    for s in fl.sites:
        if not s.reachable or s.node is not s.stmt or not isinstance(s.node, (ast.If, ast.Assert)):
            continue
        for n in ast.walk(s.node.test):
            if isinstance(n, ast.Call) and callee_name(n) == "isinstance" and len(n.args) == 2:
                cls = ast.unparse(n.args[1])
                if cls.split(".")[-1] == "KernelOp":
                    tests["kernel"].append((n.args[0], s))
                if cls.split(".")[-1] == "YieldOp":
                    tests["yield"].append((n.args[0], s))
    if not tests["kernel"] or not tests["yield"]:
        raise AnalysisError(f"{f.where}: the tests for the kernel op and for the yield behind it were not found ({ {k: len(v) for k, v in tests.items()} })")
    kpos = [_block_position(x, s, f.node) for x, s in tests["kernel"]]
    ypos = [_block_position(x, s, f.node) for x, s in tests["yield"]]
    if any(p is None for p in kpos + ypos):
        raise AnalysisError(f"{f.where}: which op of the body is tested is not recognised ({[ast.unparse(x) for x, _ in tests['kernel'] + tests['yield']]})")
    kb, kp = kpos[0]  # type: ignore[misc]
    chk.result(kp == 0 and all(p == (kb, 0) for p in kpos), "C18.single-kernel", f"{f.key}:kernel-first", tests["kernel"][0][1].where(),
               "the kernel op is the first op of the body", f"the op tested for KernelOp is at position {kp} of the body")
    # both tests dominate the assignment of the library call
    dom = all(any("KernelOp)" in t and t.startswith("isinstance(") for t in s.fact_texts) and any("YieldOp)" in t and t.startswith("isinstance(") for t in s.fact_texts) for s in lib)
    good = [p for p in ypos if p == (kb, 1)]
    vac = [p for p in ypos if p is not None and p[1] == -1]
    len2 = any(norm.any_match(["len($b.ops) == 2", "len(list($b.ops)) == 2"], fa.expr) is not None for s in lib for fa in s.facts if fa.kind == "atom")
    chk.result(bool(good or len2) and dom, "C18.single-kernel", f"{f.key}:yield-next", tests["yield"][0][1].where(),
               "the op right behind the kernel op is the yield, on every path that sets the library call",
               ("the yield test looks at the block's LAST op, which is the terminator of every body: a body `kernel.add; arith.subi; yield` is dispatched to an accelerator "
                "that implements only kernel.add" if vac and not good else f"the yield test does not look at the op right behind the kernel op (positions {ypos}; dominates: {dom})"))


# --------------------------------------------------------------------------- ineffective checks
def ineffective_continues(fn: ast.FunctionDef) -> list[ast.If]:
    """`if c: continue` as the last statement of the loop it continues (both outcomes reach the same successor)"""
    out = []
    for loop in ast.walk(fn):
        if isinstance(loop, (ast.For, ast.While)) and loop.body:
            last = loop.body[-1]
            if isinstance(last, ast.If) and not last.orelse and len(last.body) == 1 and isinstance(last.body[0], ast.Continue):
                out.append(last)
    return out


def dispatch(repo: Repo, chk: Check) -> None:
    f, fl = flow_of(repo, chk, DISP, "DispatchTemplatePattern.match_and_rewrite")
    chk.rule(
        "C18.dispatch",
        "an accelerator is selected only under `supported_kernel.kernel_type is type(kernel op)`; the library call is the "
        "matched accelerator's name; already dispatched ops are skipped",
        floor=2,
    )
    # the selected accelerator is the variable whose `.name` becomes the library call (found by dataflow, not by name)
    lib0 = [s for s in fl.stmts(ast.Assign) if s.reachable and isinstance(s.node.targets[0], ast.Attribute) and s.node.targets[0].attr == "library_call"]
    chosen = set()
    for s in lib0:
        for n in ast.walk(s.node.value):
            m = norm.match(T("$m.name"), n)
            if m is not None and isinstance(m["m"], ast.Name):
                chosen.add(m["m"].id)
        for n in ast.walk(fl.cone(s.node.value, s, inline=0)):
            m = norm.match(T("$m.name"), n)
            if m is not None and isinstance(norm.primary(m["m"]), ast.Name):
                chosen.add(norm.primary(m["m"]).id)
    sel = [s for s in fl.stmts(ast.Assign, ast.AnnAssign) if s.reachable and s.loops and isinstance((s.node.targets[0] if isinstance(s.node, ast.Assign) else s.node.target), ast.Name)
           and (s.node.targets[0] if isinstance(s.node, ast.Assign) else s.node.target).id in chosen and not (isinstance(s.node.value, ast.Constant) and s.node.value.value is None)]
    if not sel:
        raise AnalysisError(f"{f.where}: selection of the accelerator not found")
    for s in sel:
        ok = bool(has_fact(s, ["$k.kernel_type is type($o)", "type($o) is $k.kernel_type", "isinstance($o, $k.kernel_type)"]))
        chk.result(ok, "C18.dispatch", f"{f.key}:kernel-type", s.where(), "an accelerator is selected only for a kernel type it declares",
                   "an accelerator can be selected for a kernel type it does not declare", s.fact_texts)
    lib = [s for s in fl.stmts(ast.Assign) if s.reachable and isinstance(s.node.targets[0], ast.Attribute) and s.node.targets[0].attr == "library_call"]
    okl = any(depends_on(fl.cone(s.node.value, s, inline=0), "$m.name") for s in lib) and any(has_fact(s, ["not $l.library_call"]) for s in lib)
    chk.result(okl, "C18.dispatch", f"{f.key}:library-call", lib[0].where() if lib else f.where, "library_call = name of the matched accelerator, only for not yet dispatched ops")
    chk.rule("C18.dead-check", "a type-compatibility test must be able to influence the match (no `if c: continue` as the last statement of the loop it continues)", floor=1)
    dead = ineffective_continues(f.node)
    if dead:
        for d in dead:
            chk.bad("C18.dead-check", f"{f.key}:operand-types", f"{f.module.relpath}:{d.lineno}",
                    f"`if {ast.unparse(d.test)}: continue` is the last statement of the innermost loop: both outcomes continue with the next element, "
                    "so the operand types are never checked and a kernel is dispatched to an accelerator that declares other operand types")
    else:
        # the operand types must be compared somewhere before selecting
        ok = all(any("operand_types" in t or "is_same_kernel" in t for t in s.fact_texts) for s in sel)
        chk.result(ok, "C18.dead-check", f"{f.key}:operand-types", sel[0].where(), "operand types are compared before an accelerator is selected",
                   "operand types are not compared before selecting the accelerator", sel[0].fact_texts)


# --------------------------------------------------------------------------- body equivalence
def equivalence(repo: Repo, chk: Check) -> None:
    f, fl = flow_of(repo, chk, L2K, "check_kernel_equivalence")
    a, b = f.param(0), f.param(1)
    chk.rule("C18.all-ops", "check_kernel_equivalence compares every op of both blocks pairwise (equal lengths, unfiltered strict zip, op type equality) and accepts only if all pairs agree", floor=3)
    trues = [s for s in fl.stmts(ast.Return) if s.reachable and isinstance(s.node.value, ast.Constant) and s.node.value.value is True]
    if not trues:
        # a verdict that is itself a comparison of order-free summaries of the two blocks (multisets / sets / sorted lists of op types): (a + b) * c and
        # a + b * c have the same summary
        for s in [x for x in fl.stmts(ast.Return) if x.reachable and x.node.value is not None]:
            v = fl.cone(s.node.value, s, inline=0)
            bags = [c for c in ast.walk(v) if isinstance(c, ast.Call) and callee_name(c) in ("Counter", "set", "frozenset", "sorted") and any(
                isinstance(n, ast.Attribute) and n.attr == "ops" for n in ast.walk(c))]
            if isinstance(norm.primary(v), ast.Compare) and len(bags) >= 2:
                chk.bad("C18.all-ops", f"{f.key}:pairwise", s.where(),
                        f"the blocks are compared through `{callee_name(bags[0])}(..)` of their op types, irrespective of position: a body with the same op kinds in another "
                        "order ((a + b) * acc against acc + a * b) is recognised as the kernel and replaced by it")
                return
        raise AnalysisError(f"{f.where}: accepting return not found")
    for s in trues:
        okl = bool(has_fact(s, [f"len({a}.ops) == len({b}.ops)", f"len({b}.ops) == len({a}.ops)"]))
        chk.result(okl, "C18.all-ops", f"{f.key}:same-length", s.where(), "bodies of different length are rejected", "bodies with different numbers of ops can be accepted", s.fact_texts)
        okp = False
        for fact in s.facts:
            if fact.kind == "forall" and fact.domain is not None and norm.any_match(
                    [f"zip({a}.ops, {b}.ops, strict=True)", f"zip({b}.ops, {a}.ops, strict=True)", f"zip({a}.ops, {b}.ops)"], fact.domain) is not None:
                if any(bf.kind == "atom" and norm.any_match(["type($x) is type($y)", "type($x) == type($y)"], bf.expr) is not None for bf in fact.body):
                    okp = True
        chk.result(okp, "C18.all-ops", f"{f.key}:every-pair", s.where(),
                   "every pair of ops (all ops of both blocks, in order) has the same op type",
                   "the comparison does not cover every op of both bodies (ops are filtered out or not paired one-to-one): bodies that differ in the "
                   "skipped ops, e.g. in where a sign extension happens, are recognised as the kernel", s.fact_texts)
    filt = [n for n in ast.walk(f.node) if isinstance(n, (ast.ListComp, ast.GeneratorExp)) and n.generators[0].ifs and ".ops" in ast.unparse(n.generators[0].iter)]
    chk.result(not filt, "C18.all-ops", f"{f.key}:unfiltered", f.where, "no op of either body is excluded from the comparison",
               f"ops are filtered before the comparison ({[ast.unparse(x)[:70] for x in filt]})")
    chk.rule("C18.wiring-read", "`bodies that wire the same op kinds differently are left unchanged` requires the equivalence test to read operands / uses of the compared ops", floor=1)
    reads = set()
    for n in ast.walk(f.node):
        if isinstance(n, ast.Attribute):
            reads.add(n.attr)
    wiring = reads & {"operands", "results", "uses", "is_structurally_equivalent", "owner", "index", "args"}
    chk.result(bool(wiring), "C18.wiring-read", f"{f.key}:operands", f.where, f"reads {sorted(wiring)}",
               f"check_kernel_equivalence reads only {sorted(reads)} of the compared ops, never their operands: `addi %a, %a` or `muli` of swapped/"
               "foreign values is recognised as the canonical kernel")
    # ParseLinalgBody
    g, gfl = flow_of(repo, chk, L2K, "ParseLinalgBody.match_and_rewrite")
    chk.rule("C18.parse", "ParseLinalgBody rewrites a body only after the operand-count test and check_kernel_equivalence against the candidate's equivalent region", floor=2)
    muts = [s for s in gfl.calls("erase_op", "insert_op") if s.reachable]
    for s in muts:
        ok1 = any("check_kernel_equivalence(" in t and "equivalent_region.block" in t for t in s.fact_texts)
        ok2 = any("get_irdl_definition().operands" in t and "==" in t and "len(" in t for t in s.fact_texts)
        ok3 = any("issubclass" in t and "Parsable" in t and not t.startswith("not ") for t in s.fact_texts)
        chk.result(ok1 and ok2 and ok3, "C18.parse", f"{g.key}:guards@{callee_name(s.node)}", s.where(), "rewrite only for a Parsable kernel with matching operand count and equivalent body",
                   "the linalg body is rewritten without (operand count ∧ Parsable ∧ body equivalence)", s.fact_texts)


# --------------------------------------------------------------------------- tables
def _arity(repo: Repo, c: Cls) -> tuple[int, int]:
    ops = res = 0
    seen = set()
    for k in repo.mro(c):
        for name, v in k.consts.items():
            if name in seen:
                continue
            if isinstance(v, ast.Call) and callee_name(v) in ("operand_def", "opt_operand_def"):
                ops += 1
                seen.add(name)
            elif isinstance(v, ast.Call) and callee_name(v) == "result_def":
                res += 1
                seen.add(name)
    return ops, res


def tables(repo: Repo, chk: Check) -> None:
    chk.rule("C18.tables", "len(SupportedKernel types) == #operands + #results of the kernel op; equivalent regions declare that many block arguments and yield one value; is_same_kernel compares kernel type and operand+result types", floor=8)
    kmod = repo.module(KERNEL)
    n = 0
    for m in repo.modules.values():
        for node in ast.walk(m.tree):
            if isinstance(node, ast.Call) and callee_name(node) == "SupportedKernel" and len(node.args) == 2:
                k, types = node.args
                kname = k.attr if isinstance(k, ast.Attribute) else k.id if isinstance(k, ast.Name) else None
                if kname is None or kname not in kmod.classes or not isinstance(types, (ast.List, ast.Tuple)):
                    continue
                n += 1
                o, r = _arity(repo, kmod.classes[kname])
                chk.result(len(types.elts) == o + r, "C18.tables", f"{m.relpath}:SupportedKernel({kname})@{n}", f"{m.relpath}:{node.lineno}",
                           f"{kname}: {len(types.elts)} types for {o} operands + {r} results",
                           f"SupportedKernel({kname}, {ast.unparse(types)}) lists {len(types.elts)} types but {kname} has {o} operands + {r} results")
    if n == 0:
        raise AnalysisError("no SupportedKernel declarations found")
    for cname, c in kmod.classes.items():
        if not any(isinstance(b, Cls) and b.name == "Parsable" for b in repo.bases(c)) or "equivalent_region" not in c.methods:
            continue
        o, r = _arity(repo, c)
        fn = c.methods["equivalent_region"]
        for dec in [d for x in ast.walk(fn.node) if isinstance(x, ast.FunctionDef) and x is not fn.node for d in x.decorator_list]:
            if isinstance(dec, ast.Call) and "implicit_region" in ast.unparse(dec.func) and dec.args and isinstance(dec.args[0], ast.Tuple):
                elts = dec.args[0].elts
                cnt = sum(1 for e in elts if not isinstance(e, ast.Starred))
                star = sum(1 for e in elts if isinstance(e, ast.Starred) and "result_types" in ast.unparse(e))
                chk.result(cnt == o and star == 1, "C18.tables", f"{c.key}:region-args@{dec.lineno - c.node.lineno}", f"{kmod.relpath}:{dec.lineno}",
                           f"{cname}: equivalent region has {cnt} operand arguments + result types",
                           f"{cname}: equivalent region declares {cnt} operand arguments (+{star} result splat) for {o} operands")
        yields = [x for x in ast.walk(fn.node) if isinstance(x, ast.Call) and callee_name(x) == "YieldOp"]
        chk.result(bool(yields) and all(len(y.args) == 1 for y in yields), "C18.tables", f"{c.key}:one-yield", fn.where, f"{cname}: every equivalent region yields one value")
    s, sfl = flow_of(repo, chk, DISPATCHING, "SupportedKernel.is_same_kernel")
    p = s.param(1)
    rets = [x for x in sfl.stmts(ast.Return) if x.reachable and not (isinstance(x.node.value, ast.Constant) and x.node.value.value is False)]
    ok = bool(rets) and all(
        has_fact(x, [f"isinstance({p}, self.kernel_type)"]) and norm.any_match(
            [f"list(self.operand_types) == [*{p}.operand_types, *{p}.result_types]", f"[*{p}.operand_types, *{p}.result_types] == list(self.operand_types)"], x.node.value) is not None
        for x in rets)
    chk.result(ok, "C18.tables", f"{s.key}:compares", s.where, "is_same_kernel = same kernel class and identical operand+result types",
               "is_same_kernel no longer compares both the kernel class and the operand+result types")


# --------------------------------------------------------------------------- rescale expansion
def rescale(repo: Repo, chk: Check) -> None:
    f, fl = flow_of(repo, chk, K2L, "LowerRescale.match_and_rewrite")
    op = f.param(1)
    chk.rule(
        "C18.rescale-lowering",
        "on every path the rescale is replaced by trunc(max(min(trunc(shr(mul(extsi(input - zp_in), mult), shift)) + zp_out, "
        "max_int), min_int)) with each constant taken from the attribute of that name (first multiplier/shift entry)",
        floor=8,
    )
    reps = [s for s in fl.calls("replace_op") if s.reachable]
    if not reps:
        raise AnalysisError(f"{f.where}: replace_op not found")
    tmpl = T("TruncIOp(MaxSIOp(MinSIOp(AddiOp(TruncIOp(ShRSIOp(MuliOp(ExtSIOp(SubiOp($in, $zpi), $w64), $mult), $shift), $w32), $zpo), $max), $min), $w8)")
    want = {
        "zpi": "$op.input_zp.value.data", "zpo": "$op.output_zp.value.data", "mult": "$op.multiplier.get_values()[0]",
        "shift": "$op.shift.get_values()[0]", "max": "$op.max_int.value.data", "min": "$op.min_int.value.data",
    }
    for s in reps:
        lst = s.node.args[1] if len(s.node.args) > 1 else None
        if not s.state.alts:
            continue
        for n_alt, alt in enumerate(s.state.alts):
            e = expand(lst, alt.env) if lst is not None else None
            final = e.elts[-1] if isinstance(e, (ast.List, ast.Tuple)) and e.elts else e
            m = norm.match(tmpl, final) if final is not None else None
            key = f"{f.key}:chain" + (f"@path{n_alt}" if len(s.state.alts) > 1 else "")
            chk.result(m is not None, "C18.rescale-lowering", key, s.where(), "the emitted value has the full rescale dataflow shape",
                       f"on some path the emitted value is {ast.unparse(final)[:200] if final is not None else None}: a stage of the rescale "
                       "(zero points, multiply, shift, clamps) is missing or reordered")
            if m is None:
                continue
            chk.result(norm.match(T("$op.input"), m["in"], {"op": op}) is not None, "C18.rescale-lowering", f"{f.key}:input", s.where(), "the chain starts from the rescale's input")
            for hole, src in want.items():
                chk.result(depends_on(m[hole], src, binds={"op": op}) and sum(1 for w in want.values() if depends_on(m[hole], w, binds={"op": op})) == 1,
                           "C18.rescale-lowering", f"{f.key}:{hole}", s.where(), f"constant `{hole}` comes from {src.replace('$op', op)}",
                           f"the constant in the `{hole}` position is {ast.unparse(m[hole])[:80]}; expected it to come from {src.replace('$op', op)} only")
            # all ops of the chain are in the inserted list
            if isinstance(e, (ast.List, ast.Tuple)):
                chk.result(len(e.elts) == 9, "C18.rescale-lowering", f"{f.key}:all-ops-inserted", s.where(), "all nine ops of the chain are inserted")
    cins = [s for s in fl.calls("insert_op") if s.reachable]
    chk.result(any(len(s.node.args) > 1 and "InsertPoint.before" in ast.unparse(s.node.args[1]) and isinstance(s.node.args[0], ast.List) and len(s.node.args[0].elts) == 6 for s in cins),
               "C18.rescale-lowering", f"{f.key}:constants-inserted", cins[0].where() if cins else f.where, "the six constants are inserted before the linalg op")


def lower_body(repo: Repo, chk: Check) -> None:
    f, fl = flow_of(repo, chk, K2L, "LowerLinalgBody.match_and_rewrite")
    lo = f.param(1)
    chk.rule("C18.expand", "a kernel body is expanded only if it consists of exactly one Parsable kernel op followed by the yield, into that op's own equivalent region with all other attributes kept", floor=2)
    reps = [s for s in fl.calls("replace_op") if s.reachable]
    for s in reps:
        ok = bool(has_fact(s, [f"isinstance({lo}.body.block.first_op, Parsable)"])) and bool(has_fact(s, [f"isinstance({lo}.body.block.first_op.next_op, linalg.YieldOp)"]))
        chk.result(ok, "C18.expand", f"{f.key}:single-kernel", s.where(), "only single-kernel bodies are expanded", "bodies with more than the kernel op + yield are replaced by the kernel's region", s.fact_texts)
        e = s.expand(s.node.args[1]) if len(s.node.args) > 1 else None
        okr = e is not None and isinstance(e, ast.Call) and len(e.args) >= 7 and ast.unparse(e.args[2]) == f"{lo}.body.block.first_op.equivalent_region" and \
            [ast.unparse(a) for a in (e.args[0], e.args[1], e.args[3], e.args[4], e.args[5], e.args[6])] == [f"{lo}.inputs", f"{lo}.outputs", f"{lo}.indexing_maps", f"{lo}.iterator_types", f"{lo}.result_types", f"{lo}.library_call"]
        chk.result(okr, "C18.expand", f"{f.key}:replacement", s.where(), "the new generic keeps inputs/outputs/maps/iterators/results/library call and takes the kernel's equivalent region")

"""C11 — allocations are big enough and never overlap while live (DESIGN.md section 5, C11)."""

from __future__ import annotations

import ast

from sa import norm
from sa.errors import AnalysisError
from sa.flow import Flow, Site, expand
from sa.model import Repo
from sa.norm import T
from sa.report import Check

from .c17 import _floor_divs_unsafe
from .common import expand_per_alt, callee_name, depends_on, flow_of, g, has_event, has_fact, mutation_sites, op_param, require_guards, rewriter_param, subexprs

M2S = "snaxc/transforms/memref_to_snax.py"
ALLOC = "snaxc/transforms/snax_allocate.py"


def run(repo: Repo, chk: Check) -> None:
    chk.explanation = (
        "Dependency obligations (F3), typestate / guard dominance (F2) and table rules (F5) on allocation: the size "
        "operand of snax.alloc depends on every (dim, depth) bound and its byte step, on the rounded-up element size "
        "and on offset*element size, with no unguarded floor division; the static bump allocator initialises, aligns, "
        "checks the *aligned* end address against start+capacity, stores the bump pointer and emits the aligned "
        "address, in that order on every path; static allocators refuse dynamic sizes; minimalloc lifetimes cover "
        "every use of the buffer and of its casts/views mapped to top-level ops, pointers are offset+start within "
        "capacity per memory space; the memref descriptor fields are written at indices 0,1,2,[3,i]. Decides these "
        "clauses; the external minimalloc solver is trusted."
    )
    size_deps(repo, chk)
    bump(repo, chk)
    static_size(repo, chk)
    lifetime(repo, chk)
    descriptor(repo, chk)
    dynamic_sizes(repo, chk)


# --------------------------------------------------------------------------- allocation size
def size_deps(repo: Repo, chk: Check) -> None:
    f, fl = flow_of(repo, chk, M2S, "AllocOpRewrite.match_and_rewrite")
    op = op_param(f)
    chk.rule(
        "C11.size-deps",
        "snax.alloc size (TSL layout) = sum over ALL (dim, depth) of (bound-1)*byte step + element size + offset*element "
        "size; (no layout) = product of all shape ops * element size; element size is the rounded-up `.size`; no "
        "unguarded floor division anywhere in the size computation",
        floor=7,
    )
    allocs = [s for s in fl.calls("Alloc") if s.reachable]
    if not allocs:
        raise AnalysisError(f"{f.where}: snax.Alloc construction not found")
    for s in allocs:
        call = s.node
        assert isinstance(call, ast.Call)
        if len(call.args) < 2:
            raise AnalysisError(f"{s.where()}: snax.Alloc(...) with fewer than 2 positional args")
        size = fl.cone(call.args[1], s, inline=0)
        key = f"{f.key}:size"
        # TSL branch
        loop_all = False
        for ss in fl.calls("SubiOp"):
            lp = [l for l in ss.loops if isinstance(l, ast.For)]
            if lp and norm.match(T("$b.items()"), lp[-1].iter) is not None:
                site_for = next((x for x in fl.stmts(ast.For) if x.node is lp[-1]), None)
                it = site_for.expand(lp[-1].iter) if site_for else lp[-1].iter
                loop_all = loop_all or (depends_on(it, "$l.get_bound_ops($_)") and norm.match(T("$x.items()"), it) is not None)
        loop_all = loop_all and depends_on(size, "$b.items()")
        chk.result(loop_all, "C11.size-deps", key + ":all-bounds", s.where(), "the sum runs over every entry of bound_ops (all dims and tile depths)",
                   "the size no longer accumulates over all (dim, depth) bounds of the layout")
        minus1 = bool(subexprs(size, "SubiOp($b, $one)")) and depends_on(size, "ConstantOp.from_int_and_width(1, $_)")
        chk.result(minus1, "C11.size-deps", key + ":bound-minus-1", s.where(), "each term uses (bound - 1)")
        step_ok = False
        off = False
        for ms in fl.calls("MuliOp"):
            if not ms.reachable or len(ms.node.args) < 2:
                continue
            ca, cb = (fl.cone(a_, ms, inline=0) for a_ in ms.node.args[:2])
            for x, y in ((ca, cb), (cb, ca)):
                lv = [l for l in ms.loops if isinstance(l, ast.For)]
                # the key of the bound being processed: `(dim, depth)` unpacked, or the loop's key variable as it is
                same_key = depends_on(y, "$st[($d, $k)]")
                if not same_key and lv and isinstance(lv[-1].target, ast.Tuple) and isinstance(lv[-1].target.elts[0], ast.Name) and norm.match(
                        T("$b.items()"), lv[-1].iter) is not None:
                    same_key = depends_on(y, "$st[$kk]", binds={"kk": lv[-1].target.elts[0].id})
                if depends_on(x, "SubiOp($_, $_)") and same_key and depends_on(y, "$l.get_step_ops($_, $_, in_bytes=True)"):
                    step_ok = step_ok or (bool(lv) and depends_on(x, "$b.items()"))
                if depends_on(x, "$l.data.offset") and depends_on(y, "$t.size") and not ms.loops:
                    off = True
        chk.result(step_ok, "C11.size-deps", key + ":times-step", s.where(), "(bound-1) is multiplied by the byte step op of the same (dim, depth)",
                   "the (bound - 1) terms are not multiplied by step_ops[(dim, depth)] of the same stride")
        in_bytes = any(
            any(k.arg == "in_bytes" and isinstance(k.value, ast.Constant) and k.value.value is True for k in c.keywords)
            for c in ast.walk(size) if isinstance(c, ast.Call) and callee_name(c) == "get_step_ops"
        )
        chk.result(in_bytes, "C11.size-deps", key + ":steps-in-bytes", s.where(), "step ops are requested in bytes",
                   "step ops are requested in elements (in_bytes is not True): the byte size is too small for multi-byte elements")
        el = depends_on(size, "ConstantOp.from_int_and_width($t.size, $_)")
        chk.result(el, "C11.size-deps", key + ":element-size", s.where(), "the (rounded-up) element size `.size` is added / multiplied",
                   "the element size entering the allocation size is not the element type's `.size`")
        off = off and depends_on(size, "$l.data.offset")
        chk.result(off, "C11.size-deps", key + ":offset-bytes", s.where(), "offset * element size is added",
                   "the layout offset (times element size) no longer enters the allocation size")
        # none-layout branch: all shape ops
        prod_ok = depends_on(size, "range(len($s))") and depends_on(size, "MuliOp($_, $_)") and depends_on(size, "$x.pop(0)")
        if not prod_ok:
            # the same product written as a loop over the list of per-dimension size ops itself
            shape_lists = {ast.unparse(a_.node.func.value) for a_ in fl.calls("append") if a_.reachable and any(
                isinstance(l, ast.For) and norm.contains(a_.expand(l.iter), T("$a.memref.type.shape")) for l in a_.loops)}
            for ms in fl.calls("MuliOp"):
                lv = [l for l in ms.loops if isinstance(l, ast.For)]
                it_ = norm.primary(ms.expand(lv[-1].iter)) if lv else None
                for _ in range(3):
                    # a copy of the list is the list
                    if isinstance(it_, ast.Call) and isinstance(it_.func, ast.Name) and it_.func.id in ("list", "tuple") and len(it_.args) == 1:
                        it_ = norm.primary(it_.args[0])
                    elif isinstance(it_, ast.Call) and isinstance(it_.func, ast.Attribute) and it_.func.attr == "copy" and not it_.args:
                        it_ = norm.primary(it_.func.value)
                    elif isinstance(it_, ast.ListComp) and len(it_.generators) == 1 and not it_.generators[0].ifs and isinstance(it_.elt, ast.Name) \
                            and isinstance(it_.generators[0].target, ast.Name) and it_.elt.id == it_.generators[0].target.id:
                        it_ = norm.primary(it_.generators[0].iter)
                if ms.reachable and lv and isinstance(lv[-1].target, ast.Name) and isinstance(it_, ast.Name) and it_.id in shape_lists \
                        and any(isinstance(a_, ast.Name) and a_.id == lv[-1].target.id for a_ in ms.node.args[:2]) \
                        and has_fact(ms, ["isinstance($l, NoneAttr)", "isinstance($l, builtin.NoneAttr)"]):
                    prod_ok = True
        chk.result(prod_ok, "C11.size-deps", key + ":none-layout-product", s.where(), "without layout the size is the product over all dimensions")
        unsafe = _floor_divs_unsafe(size, s)
        chk.result(not unsafe, "C11.size-deps", key + ":no-floor-division", s.where(), "no floor division under-approximates the size",
                   f"the allocation size contains unguarded floor division(s) {unsafe}: the size is rounded down (e.g. sub-byte element types)")
    # which element-size expressions are used at all in this function
    for s in fl.calls("from_int_and_width"):
        a0 = s.expand(s.node.args[0]) if s.node.args else None
        if a0 is not None and (depends_on(a0, "$_.bitwidth") or depends_on(a0, "$_.width")):
            un = _floor_divs_unsafe(a0, s)
            chk.result(not un, "C11.size-deps", f"{f.key}:element-bytes@{s.line - f.node.lineno}", s.where(), "byte size derived from the bit width is rounded up",
                       f"a byte size is derived from the bit width with floor division {un}")


# --------------------------------------------------------------------------- static bump allocator
def bump(repo: Repo, chk: Check) -> None:
    f, fl0 = flow_of(repo, chk, ALLOC, "StaticAllocs.match_and_rewrite")
    op = op_param(f)
    rw = rewriter_param(f)
    chk.rule(
        "C11.bump",
        "StaticAllocs: on every path to the pointer emission the bump pointer was initialised from memory.start if "
        "absent, the address was rounded up to the alignment, `aligned + size <= start + capacity` holds for the very "
        "address that is emitted, and the bump pointer was stored as aligned + size",
        floor=5,
    )
    # statements of interest
    init = align = store = None
    for s in fl0.stmts(ast.Assign, ast.AugAssign):
        n = s.node
        if isinstance(n, ast.Assign) and isinstance(n.targets[0], ast.Subscript) and ast.unparse(n.targets[0].value) == "self.current_addresses":
            if depends_on(n.value, "$m.start") and has_fact(s, ["$m not in self.current_addresses"]):
                init = s
            else:
                store = s
        if isinstance(n, ast.AugAssign) and isinstance(n.op, ast.Add) and all(depends_on(x_, "$_ % $_") for x_ in expand_per_alt(s, n.value)):
            align = s
        if isinstance(n, ast.Assign) and isinstance(n.targets[0], ast.Name) and all(depends_on(x_, "$_ - $_ % $_") for x_ in expand_per_alt(s, n.value)) and align is None:
            align = s
    # the same initialisation as one expression: `address = self.current_addresses.setdefault(memory, memory.start)`
    init_sd = None
    for s in fl0.stmts(ast.Assign, ast.AnnAssign):
        v_ = getattr(s.node, "value", None)
        if s.reachable and v_ is not None and norm.match(T("self.current_addresses.setdefault($m, $v)"), v_) is not None:
            init_sd = s
    if init is None and init_sd is None:
        raise AnalysisError(f"{f.where}: bump-pointer initialisation not found")
    if store is None or align is None:
        what = "stores the advanced bump pointer back" if store is None else "rounds the address up to the alignment (`+= alignment - address % alignment`)"
        chk.bad("C11.bump", f"{f.key}:{'stored' if store is None else 'round-up'}", f.where, f"no statement {what}")
        return
    # the alignment construct: `if a % al != 0: a += al - a % al`
    align_if = None
    for n in ast.walk(f.node):
        if isinstance(n, ast.If) and not n.orelse and len(n.body) == 1 and n.body[0] is align.stmt:
            # (a hoisted `a % al` is looked through: the test and the increment are read with their locals expanded, per path alternative)
            st = n.body[0]
            goods = []
            m = None
            for alt in align.state.alts:
                from sa.flow import expand as _expand
                env_ = {k: v for k, v in alt.env.items()}
                # the address variable itself must stay symbolic: it is what is being rounded
                tgt_ = st.target.id if isinstance(st, ast.AugAssign) and isinstance(st.target, ast.Name) else (
                    st.targets[0].id if isinstance(st, ast.Assign) and isinstance(st.targets[0], ast.Name) else None)
                env_.pop(tgt_, None)
                m = norm.any_match(["$a % $al != 0", "$a % $al"], norm.canon(_expand(n.test, env_)))
                if m is None or not isinstance(m["a"], ast.Name):
                    goods.append(False)
                    continue
                val_ = _expand(st.value, env_)
                good = isinstance(st, ast.AugAssign) and isinstance(st.target, ast.Name) and st.target.id == m["a"].id and norm.any_match(
                    ["$al - $a % $al", "$al - ($a % $al)"], val_, {"a": m["a"], "al": m["al"]}) is not None
                good = good or (isinstance(st, ast.Assign) and norm.any_match(["$a + ($al - $a % $al)", "$a + $al - $a % $al"], val_, {"a": m["a"], "al": m["al"]}) is not None)
                goods.append(bool(good))
            if goods:
                good = all(goods)
                if good:
                    align_if = n
    chk.result(align_if is not None, "C11.bump", f"{f.key}:round-up", align.where(),
               "misaligned addresses are rounded up by `alignment - address % alignment`",
               "the alignment step is not `if a % al != 0: a += al - a % al`: the address is not rounded up to the next multiple")
    init_if = None
    if init is not None:
        for n in ast.walk(f.node):
            if isinstance(n, ast.If) and not n.orelse and len(n.body) == 1 and n.body[0] is init.stmt and norm.match(
                    T("$m not in self.current_addresses"), norm.canon(n.test)) is not None:
                init_if = n
        if init_if is None:
            raise AnalysisError(f"{f.where}: `if memory not in self.current_addresses: <init>` not found")
    else:
        assert init_sd is not None
        init_if = init_sd.stmt
    events = {
        "initialised": lambda st, w=init_if: st is w,
        "stored": lambda st, w=store.stmt: st is w,
        "aligned": lambda st, w=align_if: st is w,
    }
    fl = Flow(f, repo, events=events)
    emits = [s for s in fl.calls("from_int_and_width") if s.reachable and len(s.node.args) > 1 and "i32" in ast.unparse(s.node.args[1])]
    if not emits:
        raise AnalysisError(f"{f.where}: pointer constant emission not found")
    for s in emits:
        key = f"{f.key}:emit"
        ptr = s.expand(s.node.args[0])
        chk.result(has_event(s, "aligned"), "C11.bump", key + ":aligned", s.where(), "the emitted address went through the round-up on every path",
                   "an address can be emitted without passing the alignment round-up")
        cap = None
        for x in s.facts:
            if x.kind != "atom":
                continue
            m = norm.any_match(["$p + $sz <= $m.start + $m.capacity", "$p + $sz <= $m.capacity + $m.start"], x.expr, {"p": ptr})
            if m is not None and depends_on(m["sz"], "$op.size.op.value", binds={"op": op}):
                cap = x
        chk.result(cap is not None, "C11.bump", key + ":capacity", s.where(),
                   "`emitted address + size <= start + capacity` holds for the very address that is emitted (it was not changed after the check)",
                   "the capacity check does not cover the emitted address: it is missing, or the address was changed (aligned) after the check, "
                   "so the buffer can end beyond start + capacity", s.fact_texts)
        chk.result(has_event(s, "initialised") or bool(has_fact(s, ["$m in self.current_addresses"])), "C11.bump", key + ":initialised", s.where(),
                   "the bump pointer of the memory exists (initialised from memory.start)")
        chk.result(has_event(s, "stored"), "C11.bump", key + ":stored", s.where(), "the bump pointer is advanced before the address is handed out",
                   "an address is handed out on a path that does not store the advanced bump pointer: the next buffer overlaps")
    # the stored value is aligned address + size
    sv = store.node.value
    sp = fl0.cone(sv, store, inline=0)
    ok = depends_on(sp, "$c + $sz") and depends_on(sp, "$op.size.op.value", binds={"op": op}) and depends_on(sp, "$_ - $_ % $_")
    # ... and it is the very address that is emitted, plus the size
    for s in emits:
        m = norm.match(T("$p + $sz"), store.expand(sv) if False else fl0.cone(sv, store, inline=0))
    st2 = next((x for x in fl.stmts(ast.Assign) if x.node is store.node), None)
    same = False
    if st2 is not None and emits:
        e = st2.expand(sv)
        m = norm.any_match(["$p + $sz", "$sz + $p"], e)
        same = m is not None and ast.unparse(m["p"]) == ast.unparse(emits[0].expand(emits[0].node.args[0]))
    ok = ok and same
    chk.result(ok, "C11.bump", f"{f.key}:stored-value", store.where(), "stored bump pointer = aligned address + size of this alloc",
               "the stored bump pointer is not `aligned address + size`")
    if init is not None:
        init_ok = norm.match(T("$m.start"), init.node.value) is not None
        init_where = init.where()
    else:
        assert init_sd is not None
        m_ = norm.match(T("self.current_addresses.setdefault($m, $v)"), init_sd.node.value)
        init_ok = m_ is not None and norm.match(T("$x.start"), m_["v"]) is not None and ast.unparse(norm.match(T("$x.start"), m_["v"])["x"]) == ast.unparse(m_["m"])
        init_where = init_sd.where()
    chk.result(init_ok, "C11.bump", f"{f.key}:init-value", init_where, "the bump pointer starts at memory.start")


def static_size(repo: Repo, chk: Check) -> None:
    chk.rule("C11.static-size", "both static allocators only proceed for constant sizes and a defined memory space", floor=4)
    f, fl = flow_of(repo, chk, ALLOC, "StaticAllocs.match_and_rewrite")
    op = op_param(f)
    sites = [(s, lab) for s, lab in mutation_sites(fl, rewriter_param(f)) if s.reachable]
    require_guards(
        chk, "C11.static-size", f, sites,
        [
            ("size-is-result", g("isinstance($op.size, OpResult)", op=op)),
            ("size-is-constant", g("isinstance($op.size.op, arith.ConstantOp)", "isinstance($op.size.op, ConstantOp)", op=op)),
            ("memory-space-defined", g("$op.memory_space is not None", "isinstance($op.memory_space, builtin.StringAttr)", op=op)),
        ],
    )
    m, mfl = flow_of(repo, chk, ALLOC, "MiniMallocate.match_and_rewrite")
    bufs = [s for s in mfl.calls("Buffer") if s.reachable]
    if not bufs:
        raise AnalysisError(f"{m.where}: Buffer(...) construction not found")
    for s in bufs:
        ok = bool(has_fact(s, ["isinstance($o.size, OpResult)"])) and bool(has_fact(s, ["isinstance($o.size.op, arith.ConstantOp)", "isinstance($o.size.op, ConstantOp)"])) \
            and bool(has_fact(s, ["$o.memory_space is not None"]))
        chk.result(ok, "C11.static-size", f"{m.key}:buffer", s.where(), "a buffer is only recorded for a constant size and a defined memory space",
                   "minimalloc buffers are created without the constant-size / memory-space checks", s.fact_texts)
        e = s.expand(s.node)
        ok2 = len(s.node.args) >= 5 and depends_on(s.expand(s.node.args[3]), "$o.size.op.value") and depends_on(mfl.cone(s.node.args[4], s, inline=0), "$o.alignment")
        chk.result(ok2, "C11.static-size", f"{m.key}:buffer-size", s.where(), "the buffer carries the alloc's own size and alignment")


# --------------------------------------------------------------------------- lifetimes
VIEW_HINTS = ("Subview", "SubviewOp", "ReinterpretCast", "CastOp", "LayoutCast", "MemorySpaceCast", "ViewLike", "memref.")


# ops whose result addresses (a part of) the buffer of their operand
VIEW_CLASSES = ("SubviewOp", "CastOp", "ReinterpretCastOp", "MemorySpaceCastOp", "ExpandShapeOp", "CollapseShapeOp", "LayoutCast", "UnrealizedConversionCastOp")


def lifetime(repo: Repo, chk: Check) -> None:
    f, fl = flow_of(repo, chk, ALLOC, "MiniMallocate.match_and_rewrite")
    chk.rule(
        "C11.lifetime",
        "MiniMallocate: a buffer's lifetime is extended by every use of the alloc result and, transitively, of every "
        "cast/view of it, each mapped to its enclosing top-level op; the pointer is offset + memory.start; the solver "
        "gets memory.capacity; buffers are partitioned by memory space",
        floor=6,
    )
    # the use table is recognised by its shape (a dict of lists keyed by the top-level op of a use), not by its name
    apps = []
    for s in fl.calls("append"):
        m = norm.match(T("$u[$k].append($b)"), s.node) if s.reachable else None
        if m is not None and isinstance(m["u"], ast.Name) and any(
                isinstance(d, (ast.Dict, ast.DictComp)) or (isinstance(d, ast.Call) and callee_name(d) in ("defaultdict", "dict")) for d in fl.alldefs.get(m["u"].id, [])):
            apps.append(s)
    if not apps:
        raise AnalysisError(f"{f.where}: recording of uses not found")
    uses_name = apps[0].node.func.value.value.id  # type: ignore[attr-defined]
    top = all(depends_on(fl.cone(s.node.func.value.slice, s, inline=0), "get_top_level_op($_)") for s in apps)  # type: ignore[attr-defined]
    # every use counts, whatever kind of op it is: a buffer (or a view of it) handed to the terminator is alive until the function returns
    for n_a, s in enumerate(apps, 1):
        lp_ = [l for l in s.loops if isinstance(l, ast.For)]
        head_ = next((x for x in fl.stmts(ast.For) if lp_ and x.node is lp_[-1]), None)
        base_ = {fa.text for alt in head_.state.alts for fa in alt.facts.values()} | set(head_.fact_texts) if head_ is not None else set()
        extra_ = [t for t in s.fact_texts if t not in base_]
        chk.result(not extra_, "C11.lifetime", f"{f.key}:every-use#{n_a}", s.where(), "a use is recorded unconditionally",
                   f"a use extends the lifetime only if {extra_[:2]}: a buffer whose last use is filtered out (a memref returned by func.return) is dead after its previous use, "
                   "a buffer allocated in between gets the same address range and a dealloc is placed in front of the return", s.fact_texts)
    chk.result(top, "C11.lifetime", f"{f.key}:top-level", apps[0].where(), "every use is mapped to its enclosing top-level op",
               "a use is recorded without mapping it to its top-level op: uses nested in loops do not extend the lifetime")
    # where do the visited uses come from: op.results[0].uses directly, or a (recursive) helper over it
    helper = None
    direct = False
    for s in apps:
        for l in s.loops:
            if not isinstance(l, ast.For):
                continue
            if norm.match(T("$o.results[0].uses"), l.iter) is not None:
                direct = True
            m = norm.match(T("$h($o.results[0])"), l.iter)
            if m is not None and isinstance(m["h"], ast.Name):
                try:
                    helper = f.nested(m["h"].id)
                except AnalysisError:
                    helper = None
    casts_ok = views_ok = False
    followed: set[str] = set()
    if helper is not None:
        chk.analysed(helper.key)
        hfl = Flow(helper, repo)
        v = helper.param(0)
        ys = [x for x in hfl.sites if isinstance(x.node, ast.Yield) and x.reachable]
        for y in ys:
            lp = [l for l in y.loops if isinstance(l, ast.For)]
            if lp and norm.match(T("$v.uses"), lp[0].iter, {"v": v}) is not None and isinstance(lp[0].target, ast.Name) \
                    and ast.unparse(y.node.value) == lp[0].target.id and not [t for t in y.fact_texts if "isinstance" in t]:
                direct = True
        for y in [x for x in hfl.sites if isinstance(x.node, ast.YieldFrom) and x.reachable]:
            call = y.node.value
            if not (isinstance(call, ast.Call) and callee_name(call) == helper.name):
                continue
            lp = [l for l in y.loops if isinstance(l, ast.For)]
            over_results = any(norm.match(T("$u.operation.results"), l.iter) is not None for l in lp)
            for fact in y.facts:
                if fact.kind != "atom":
                    continue
                m = norm.match(T("isinstance($u.operation, $c)"), fact.expr)
                if m is None:
                    continue
                classes = [ast.unparse(e) for e in (m["c"].elts if isinstance(m["c"], ast.Tuple) else [m["c"]])]
                # a condition on the individual result narrows which results of the cast are followed: an unrealized
                # cast can turn the buffer into any type, so every one of its results is a cast of the buffer
                rvars = {n.id for l in lp if norm.match(T("$u.operation.results"), l.iter) is not None for n in ast.walk(l.target) if isinstance(n, ast.Name)}
                narrowed = [ast.unparse(x.expr) for x in y.facts if x.kind in ("atom", "not") and rvars & norm.free_names(x.expr)]
                if over_results and narrowed and any(c.endswith("UnrealizedConversionCastOp") for c in classes):
                    chk.bad("C11.lifetime", f"{f.key}:cast-results", y.where(),
                            f"the results of an unrealized conversion cast of the buffer are only followed when {narrowed}: a cast to another type "
                            "that is used later no longer extends the buffer's lifetime")
                    continue
                if over_results and any(c.endswith("UnrealizedConversionCastOp") for c in classes):
                    casts_ok = True
                if over_results and any(c.endswith("SubviewOp") for c in classes):
                    views_ok = True
                if over_results:
                    followed |= {n_.attr if isinstance(n_, ast.Attribute) else n_.id for n_ in ast.walk(m["c"]) if isinstance(n_, (ast.Attribute, ast.Name))}
    else:
        casts = [s for s in apps if has_fact(s, ["isinstance($u.operation, builtin.UnrealizedConversionCastOp)", "isinstance($u.operation, UnrealizedConversionCastOp)"])]
        casts_ok = bool(casts)
    chk.result(direct, "C11.lifetime", f"{f.key}:direct-uses", apps[0].where(), "all uses of the alloc result are visited",
               "not every use of the alloc result extends the buffer's lifetime")
    chk.result(casts_ok, "C11.lifetime", f"{f.key}:cast-uses", apps[0].where(),
               "uses of the unrealized cast of the buffer extend the lifetime",
               "uses of the buffer's unrealized conversion cast no longer extend the lifetime")
    chk.result(views_ok, "C11.lifetime", f"{f.key}:views-transitive", f.where,
               "uses are followed transitively through views (subviews, casts) of the buffer",
               "only the alloc result and one level of unrealized cast are followed: a subview (or further cast) of the buffer that is "
               "used later does not extend the lifetime, so its address range can be handed to another buffer while still in use")
    # every op of the memref dialect (and of snax) whose result is a view of its operand's buffer is followed
    if followed:
        missing = [c for c in VIEW_CLASSES if c not in followed]
        chk.result(not missing, "C11.lifetime", f"{f.key}:view-kinds", f.where, f"all view-like ops are followed: {sorted(VIEW_CLASSES)}",
                   f"uses through {missing} are not followed: a buffer that is only used through such a view after another buffer was allocated has ended its lifetime "
                   "by then, and the two get the same address range (memref.collapse_shape %a, then an alloc, then a use of the flattened view)")
    # end_time update
    upd = [s for s in fl.stmts(ast.Assign) if s.reachable and isinstance(s.node.targets[0], ast.Attribute) and s.node.targets[0].attr == "end_time"]
    oku = False
    for s in upd:
        outer = [l for l in s.loops if isinstance(l, ast.For)]
        if outer and norm.match(T("enumerate($f.body.block.ops)"), outer[0].iter) is not None and isinstance(outer[0].target, ast.Tuple):
            iv = outer[0].target.elts[0].id  # type: ignore[attr-defined]
            # the buffers whose lifetime is extended are those recorded for this op: `if op in uses: for b in uses[op]` or `for b in uses.get(op, ())`
            in_table = bool(has_fact(s, [f"$o in {uses_name}"])) or any(
                isinstance(l, ast.For) and norm.any_match([f"{uses_name}.get($o, ())", f"{uses_name}.get($o, [])", f"{uses_name}[$o]"], l.iter) is not None for l in s.loops)
            oku = oku or (ast.unparse(s.node.value) == iv and in_table)
    chk.result(oku, "C11.lifetime", f"{f.key}:end-time", upd[0].where() if upd else f.where, "end_time := index of each top-level op that uses the buffer")
    # pointers
    # any table store whose value adds a memory's start address is the pointer hand-out
    ptr = [s for s in fl.stmts(ast.Assign) if s.reachable and isinstance(s.node.targets[0], ast.Subscript) and isinstance(s.node.targets[0].value, ast.Name)
           and isinstance(s.node.value, ast.BinOp) and isinstance(s.node.value.op, ast.Add)
           and (norm.contains(fl.cone(s.node.value, s, inline=0), T("$m.start")) or "pointer" in ast.unparse(s.node.targets[0].value))]
    # pointer = solver offset + base, base = memory.start or memory.start rounded up
    okp = False
    aligned_base = False
    base_txt = None
    for s in ptr:
        m_ = norm.any_match(["$off + $base", "$base + $off"], s.node.value)
        if m_ is None:
            continue
        for off_, base_ in ((m_["off"], m_["base"]), (m_["base"], m_["off"])):
            cb = fl.cone(base_, s, inline=0)
            # the base is the operand that is computed from memory.start itself (the offset comes out of the solver, whose capacity argument may mention the start too)
            if norm.contains(norm.primary(s.expand(base_)), T("$m.start")) and not norm.contains(norm.primary(s.expand(off_)), T("$m.start")):
                okp = True
                base_txt = ast.unparse(base_)
                # rounded up to an alignment: -(-start // a) * a   /   (start + a - 1) // a * a
                aligned_base = aligned_base or any(norm.any_match(["-(-$m.start // $a) * $a", "($m.start + $a - 1) // $a * $a", "($m.start + ($a - 1)) // $a * $a",
                                                                    "$a * -(-$m.start // $a)"], n_) is not None for n_ in ast.walk(cb) if isinstance(n_, ast.BinOp))
    ptr_tables = {ast.unparse(s.node.targets[0].value) for s in ptr}
    chk.result(okp, "C11.lifetime", f"{f.key}:pointer", ptr[0].where() if ptr else f.where, "pointer = solver offset + a base taken from memory.start",
               "the pointer handed out is no longer `solver offset + memory.start`")
    # the solver hands out offsets that are multiples of each buffer's alignment: the address is aligned only if the base is
    chk.result(aligned_base, "C11.lifetime", f"{f.key}:aligned-base", ptr[0].where() if ptr else f.where,
               "the offsets count from memory.start rounded up to the buffers' alignment",
               f"the solver's offsets are added to `{base_txt}` as it is: for a memory window that does not start at a multiple of the alignment (start 0x10000020, alignment 64) "
               "every buffer is misaligned by start % alignment (findings/C11_minimalloc_unaligned_start)")
    probs = [s for s in fl.calls("Problem") if s.reachable]
    okc = any(len(s.node.args) >= 2 and (norm.match(T("$m.capacity"), s.node.args[1]) is not None
                                         or norm.any_match(["$m.capacity - ($b - $m.start)", "$m.capacity - $b + $m.start", "$m.capacity + $m.start - $b"], s.node.args[1]) is not None)
              for s in probs)
    chk.result(okc, "C11.lifetime", f"{f.key}:capacity", probs[0].where() if probs else f.where, "the solver is bounded by memory.capacity (less what rounding the base up takes)",
               "the solver is no longer given the capacity of the memory")
    okm = False
    for s in probs:
        sub = fl.cone(s.node.args[0], s, inline=0)
        okm = okm or depends_on(sub, "$b[$x.id].memory_space == $m.attribute")
    chk.result(okm, "C11.lifetime", f"{f.key}:per-memory", probs[0].where() if probs else f.where, "each memory space is solved for its own buffers only")
    # replace uses the pointer of this buffer
    rep = [s for s in fl.calls("from_int_and_width") if s.reachable and s.loops and s.node.args and any(depends_on(s.node.args[0], f"{t}[$b.id]") or depends_on(fl.cone(s.node.args[0], s, inline=0), f"{t}[$b.id]") for t in ptr_tables)]
    chk.result(bool(rep), "C11.lifetime", f"{f.key}:own-pointer", rep[0].where() if rep else f.where, "each alloc is replaced by the pointer computed for its own buffer id")


# --------------------------------------------------------------------------- descriptor
def descriptor(repo: Repo, chk: Check) -> None:
    f, fl = flow_of(repo, chk, ALLOC, "create_memref_struct")
    alloc, ptr, aligned = f.param(0), f.param(1), f.param(2)
    chk.rule("C11.descriptor", "create_memref_struct writes pointer at [0], aligned pointer at [1], offset 0 at [2] and size i at [3, i] for every shape operand", floor=4)
    ins = [s for s in fl.calls("InsertValueOp") if s.reachable]
    got: dict[str, ast.expr] = {}
    for s in ins:
        if len(s.node.args) < 3:
            continue
        idx = None
        for _, m in subexprs(s.node.args[0], "builtin.DenseArrayBase.from_list($t, $l)") + subexprs(s.node.args[0], "DenseArrayBase.from_list($t, $l)"):
            idx = ast.unparse(m["l"])
        if idx is not None:
            got[idx] = s.node.args[2]
            got["@" + idx] = s  # type: ignore[assignment]
    want = {"[0]": lambda e: ast.unparse(e) == ptr, "[1]": lambda e: ast.unparse(e) == aligned}
    for idx, test in want.items():
        chk.result(idx in got and test(got[idx]), "C11.descriptor", f"{f.key}:{idx}", f.where, f"descriptor field {idx} holds the {'pointer' if idx == '[0]' else 'aligned pointer'}",
                   f"descriptor field {idx} receives {ast.unparse(got[idx]) if idx in got else None}")
    z = got.get("[2]")
    s2 = got.get("@[2]")
    okz = z is not None and s2 is not None and depends_on(s2.expand(z), "arith.ConstantOp.from_int_and_width(0, $_)")  # type: ignore[union-attr]
    chk.result(okz, "C11.descriptor", f"{f.key}:[2]", f.where, "descriptor offset is the constant 0")
    shp = [k for k in got if k.startswith("[3, ")]
    oks = False
    for k in shp:
        s3 = got["@" + k]
        loops = [l for l in s3.loops if isinstance(l, ast.For)]  # type: ignore[union-attr]
        if loops and norm.match(T("enumerate($a.shapes)"), loops[0].iter, {"a": alloc}) is not None and isinstance(loops[0].target, ast.Tuple):
            iv = loops[0].target.elts[0].id  # type: ignore[attr-defined]
            oks = k == f"[3, {iv}]"
    chk.result(oks, "C11.descriptor", f"{f.key}:[3,i]", f.where, "size i of the descriptor is shape operand i, for every shape operand",
               "the sizes of the memref descriptor are not written at [3, i] for every shape operand i")
    am = [s for s in fl.stmts(ast.Assign) if isinstance(s.node.targets[0], ast.Name) and s.node.targets[0].id == aligned]
    chk.result(any(ast.unparse(s.node.value) == ptr and has_fact(s, ["$a is None"], {"a": aligned}) for s in am), "C11.descriptor", f"{f.key}:aligned-default", f.where,
               "the aligned pointer defaults to the pointer only when none was given")


# --------------------------------------------------------------------------- dynamic size operands
def dynamic_sizes(repo: Repo, chk: Check) -> None:
    chk.rule(
        "C11.dynamic-sizes",
        "the alloc's dynamic size operands (one per DYNAMIC dimension, in order) are paired with the shape: walking the shape, a DYNAMIC entry "
        "takes the next dynamic operand from the front, a static entry a constant of that entry",
        floor=2,
    )
    f, fl = flow_of(repo, chk, M2S, "AllocOpRewrite.match_and_rewrite")
    apps = [s for s in fl.calls("append") if s.reachable and any(isinstance(l, ast.For) and norm.contains(s.expand(l.iter), T("$a.memref.type.shape")) for l in s.loops)]
    dyn_ok = stat_ok = False
    where = f.where
    for s in apps:
        arg = s.node.args[0]
        for alt in s.state.alts:
            facts = [x for x in alt.facts.values() if x.kind == "atom"]
            is_dyn = any(norm.any_match(["$e == DYNAMIC_INDEX", "$e.data == DYNAMIC_INDEX", "$e is DYNAMIC_INDEX"], x.expr) is not None for x in facts)
            not_dyn = any(norm.any_match(["$e != DYNAMIC_INDEX", "$e.data != DYNAMIC_INDEX"], x.expr) is not None for x in facts)
            cone = fl.cone(arg, s, inline=0)
            if is_dyn:
                where = s.where()
                pops = [n for n in ast.walk(arg) if isinstance(n, ast.Call) and callee_name(n) == "pop"]
                front = bool(pops) and all(len(n.args) == 1 and isinstance(n.args[0], ast.Constant) and n.args[0].value == 0 for n in pops)
                from_dyn = norm.contains(cone, T("$a.dynamic_sizes")) or any(
                    norm.contains(d, T("$a.dynamic_sizes")) for nm in norm.free_names(arg) for d in fl.alldefs.get(nm, []))
                dyn_ok = dyn_ok or (front and from_dyn)
            if not_dyn and (norm.contains(cone, T("ConstantOp.from_int_and_width($s.data, $t)")) or norm.contains(cone, T("$c.from_int_and_width($s.data, $t)"))):
                stat_ok = True
    chk.result(dyn_ok, "C11.dynamic-sizes", f"{f.key}:dynamic-entry", where, "a DYNAMIC shape entry consumes the next dynamic size operand (front of the list)",
               "a DYNAMIC shape entry is not paired with the next dynamic size operand in order: sizes of different dimensions are exchanged")
    chk.result(stat_ok, "C11.dynamic-sizes", f"{f.key}:static-entry", where, "a static shape entry becomes a constant of that entry",
               "static shape entries no longer become constants of their own value")

"""Shared helpers for the rule modules: mutation sites of rewrite patterns, guard requirements,
dependency (cone) obligations."""

from __future__ import annotations

import ast
from typing import Callable, Iterable

from sa import norm
from sa.errors import AnalysisError
from sa.flow import Fact, Flow, Site
from sa.model import Func, Repo
from sa.norm import T, Template
from sa.report import Check

# calls that change the IR (xdsl PatternRewriter / Rewriter / Operation / Block / SSAValue API)
REWRITER_METHODS = {
    "replace_op",
    "replace_matched_op",
    "erase_op",
    "erase_matched_op",
    "insert_op",
    "insert_op_before",
    "insert_op_after",
    "insert_op_before_matched_op",
    "insert_op_after_matched_op",
    "insert_op_at_start",
    "insert_op_at_end",
    "inline_block",
    "inline_block_before",
    "inline_block_after",
    "inline_block_at_start",
    "inline_block_at_end",
    "inline_block_before_matched_op",
    "inline_block_after_matched_op",
    "inline_region",
    "inline_region_before",
    "inline_region_after",
    "move_region_contents_to_new_regions",
    "insert_block_argument",
    "erase_block_argument",
    "replace_all_uses_with",
    "modify_block_argument_type",
    "modify_value_type",
    "replace_value_with_new_type",
    "erase_block",
    "insert_block",
    "insert_block_before",
    "insert_block_after",
}
IR_METHODS = {
    "replace_all_uses_with",
    "replace_by",
    "replace_by_if",
    "replace_uses_with_if",
    "detach",
    "erase",
    "add_op",
    "add_ops",
    "insert_op_before",
    "insert_op_after",
    "insert_ops_before",
    "insert_ops_after",
    "detach_region",
    "add_block",
    "add_region",
    "insert_arg",
    "erase_arg",
    "erase_op",
    "detach_op",
    "drop_all_references",
    "move_blocks",
}
IR_STORE_ATTRS = {"operands", "results", "attributes", "properties", "regions", "successors"}


def callee_name(n: ast.AST) -> str | None:
    if isinstance(n, ast.Call):
        f = n.func
        if isinstance(f, ast.Attribute):
            return f.attr
        if isinstance(f, ast.Name):
            return f.id
    return None


def is_mutation(n: ast.AST, rewriter: str | None) -> str | None:
    """label of the IR mutation performed by node `n` (a call or an assignment), or None"""
    if isinstance(n, ast.Call) and isinstance(n.func, ast.Attribute):
        base = n.func.value
        if rewriter and isinstance(base, ast.Name) and base.id == rewriter and n.func.attr in REWRITER_METHODS:
            return f"{rewriter}.{n.func.attr}"
        if isinstance(base, ast.Name) and base.id in ("Rewriter",) and n.func.attr in REWRITER_METHODS:
            return f"Rewriter.{n.func.attr}"
        if n.func.attr in IR_METHODS and not (isinstance(base, ast.Name) and base.id == rewriter):
            return f".{n.func.attr}"
    if isinstance(n, (ast.Assign, ast.AugAssign)):
        targets = n.targets if isinstance(n, ast.Assign) else [n.target]
        for t in targets:
            cur = t
            if isinstance(cur, ast.Subscript):
                cur = cur.value
            if isinstance(cur, ast.Attribute) and cur.attr in IR_STORE_ATTRS:
                return f".{cur.attr}="
    if isinstance(n, ast.Delete):
        for t in n.targets:
            cur = t
            if isinstance(cur, ast.Subscript):
                cur = cur.value
            if isinstance(cur, ast.Attribute) and cur.attr in IR_STORE_ATTRS:
                return f"del .{cur.attr}"
    return None


def mutation_sites(fl: Flow, rewriter: str | None) -> list[tuple[Site, str]]:
    """(site, label#ordinal) for every IR mutation in the analysed function body"""
    out: list[tuple[Site, str]] = []
    count: dict[str, int] = {}
    seen: set[int] = set()
    for s in fl.sites:
        if id(s.node) in seen:
            continue
        lab = is_mutation(s.node, rewriter)
        if lab is None:
            continue
        seen.add(id(s.node))
        count[lab] = count.get(lab, 0) + 1
        out.append((s, f"{lab}#{count[lab]}"))
    return out


def rewriter_param(f: Func) -> str | None:
    """name of the PatternRewriter parameter (by annotation, else by the conventional position 2)"""
    a = f.node.args
    for x in (*a.posonlyargs, *a.args):
        if x.annotation is not None and "Rewriter" in ast.unparse(x.annotation):
            return x.arg
    ps = f.params
    return ps[2] if len(ps) > 2 else None


def op_param(f: Func) -> str:
    """name of the matched-op parameter of a match_and_rewrite method"""
    ps = f.params
    if len(ps) < 2:
        raise AnalysisError(f"{f.where}: match_and_rewrite without op parameter")
    return ps[1]


def fact_matches(f: Fact, templates: Iterable[Template | str], binds: dict | None = None) -> bool:
    if f.kind != "atom":
        return False
    return norm.any_match(templates, f.expr, binds) is not None


def _bind_variants(site: Site, binds: dict | None) -> list[dict | None]:
    """facts are stored over expanded values (copy propagation): a hole pre-bound to a local must also match that local's definition"""
    if not binds:
        return [binds]
    out: list[dict | None] = [binds]
    exp = {}
    changed = False
    for k, v in binds.items():
        node = ast.parse(v, mode="eval").body if isinstance(v, str) else v
        try:
            e = site.expand(node)
        except Exception:  # noqa: BLE001
            e = node
        exp[k] = e
        if ast.dump(e) != ast.dump(node):
            changed = True
    if changed:
        out.append(exp)
    return out


def has_fact(site: Site, templates: Iterable[Template | str], binds: dict | None = None) -> Fact | None:
    ts = [T(t) if isinstance(t, str) else t for t in templates]
    for b in _bind_variants(site, binds):
        for f in site.facts:
            if fact_matches(f, ts, b):
                return f
    return None


def every_alt_has(site: Site, templates: Iterable[Template | str], binds: dict | None = None) -> bool:
    """every path class reaching the site carries a fact matching one of the templates (the fact may be
    spelled differently per path class, e.g. over different definitions of a local)"""
    ts = [T(t) if isinstance(t, str) else t for t in templates]
    if not site.state.alts:
        return False
    for alt in site.state.alts:
        if not any(f.kind == "atom" and norm.any_match(ts, f.expr, binds) is not None for f in alt.facts.values()):
            return False
    return True


def has_forall(
    site: Site,
    body_templates: Iterable[Template | str],
    domain_ok: Callable[[ast.expr], bool] | None = None,
    var_hole: str = "v",
) -> Fact | None:
    """a quantified fact `forall v in D: ... body ...` whose body contains an atom matching one of the
    templates (the hole $v is pre-bound to the quantified variable)"""
    ts = [T(t) if isinstance(t, str) else t for t in body_templates]
    for f in site.facts:
        if f.kind != "forall" or len(f.vars) != 1:
            continue
        if domain_ok is not None and (f.domain is None or not domain_ok(f.domain)):
            continue
        binds = {var_hole: ast.Name(f.vars[0], ast.Load())}
        for b in f.body:
            if b.kind == "atom" and norm.any_match(ts, b.expr, binds) is not None:
                return f
    # the same said in one expression: `not any(p(v) for v in D)` / `all(q(v) for v in D)` (quantifier normal form)
    for f in site.facts:
        if f.kind != "atom":
            continue
        q = norm.qnf(f.expr)
        if q is None or q[0] != "all" or not isinstance(q[1], str):
            continue
        _, var, dom, filters, body = q
        if filters:
            continue
        if domain_ok is not None and not domain_ok(dom):
            continue
        binds = {var_hole: ast.Name(var, ast.Load())}
        for a_ in norm.atoms(body, True):
            if norm.any_match(ts, a_, binds) is not None:
                return f
    return None


Guard = tuple[str, list[str]]  # (label, alternative templates)


def require_guards(
    chk: Check,
    rule: str,
    f: Func,
    sites: list[tuple[Site, str]],
    guards: list[tuple[str, Callable[[Site], Fact | None | bool]]],
) -> None:
    """every given mutation site must carry every guard among its must-facts"""
    for site, label in sites:
        if not site.reachable:
            continue
        for gname, test in guards:
            got = test(site)
            key = f"{f.key}:{gname}@{label}"
            if got:
                chk.ok(rule, key, site.where(), f"{label} is dominated by guard '{gname}'",
                       [got.text] if isinstance(got, Fact) else [])
            else:
                opaque = list(getattr(getattr(site, "flow", None), "opaque_new", []) or [])
                if opaque:
                    # a helper this change introduced could not be walked as part of the function: the guard may be established inside it
                    raise AnalysisError(f"{site.where()}: guard '{gname}' of {label} not found, and the new helper(s) {opaque} could not be looked through")
                chk.bad(rule, key, site.where(),
                        f"IR mutation {label} ({ast.unparse(site.node)[:70]}) is reachable without guard '{gname}'",
                        site.fact_texts)


def g(*templates: str, **binds: str) -> Callable[[Site], Fact | None]:
    """guard test: some must-fact matches one of the templates"""
    ts = [T(t) for t in templates]
    return lambda site: has_fact(site, ts, binds or None)


def subexprs(e: ast.AST, t: str | Template, binds: dict | None = None) -> list[tuple[ast.AST, dict]]:
    return norm.find(T(t) if isinstance(t, str) else t, e, binds)


def depends_on(e: ast.AST, *templates: str, binds: dict | None = None) -> bool:
    return any(norm.contains(e, T(t), binds) for t in templates)


def has_event(site: Site, label: str) -> bool:
    return any(f.kind == "atom" and f.text == f"__event__({label!r})" for f in site.facts)


def stmt_has_call(st: ast.stmt, *names: str) -> bool:
    return any(isinstance(n, ast.Call) and callee_name(n) in names for n in ast.walk(st))


def flow_of(repo: Repo, chk: Check, path: str, qual: str, **kw) -> tuple[Func, Flow]:
    f = repo.func(path, qual)
    chk.analysed(f.key)
    return f, Flow(f, repo, **kw)


def kwarg(call: ast.Call, name: str, pos: int | None = None) -> ast.expr | None:
    for k in call.keywords:
        if k.arg == name:
            return k.value
    if pos is not None and pos < len(call.args) and not any(isinstance(a, ast.Starred) for a in call.args[: pos + 1]):
        return call.args[pos]
    return None


def expand_with_loops(site: Site, e: ast.expr) -> ast.expr:
    """site.expand plus the targets of the enclosing `for` loops: `for i, x in enumerate(X)` makes x stand for `X[i]`, `for x in X`
    for `X[__i__]` (data flow only, no control dependencies)"""
    from sa.flow import expand as _expand

    out = site.expand(e)
    for lp in reversed([l for l in site.loops if isinstance(l, ast.For)]):
        sub: dict[str, ast.expr] = {}
        it = lp.iter
        if isinstance(it, ast.Call) and isinstance(it.func, ast.Name) and it.func.id == "enumerate" and it.args and isinstance(lp.target, ast.Tuple) \
                and len(lp.target.elts) == 2 and all(isinstance(x, ast.Name) for x in lp.target.elts):
            base = it.args[0]
            while isinstance(base, ast.Call) and isinstance(base.func, ast.Name) and base.func.id in ("tuple", "list") and len(base.args) == 1:
                base = base.args[0]
            i_, x_ = lp.target.elts
            sub[x_.id] = ast.Subscript(base, ast.Name(i_.id, ast.Load()), ast.Load())  # type: ignore[union-attr]
        elif isinstance(lp.target, ast.Name) and not (isinstance(it, ast.Call) and isinstance(it.func, ast.Name) and it.func.id == "range"):
            sub[lp.target.id] = ast.Subscript(it, ast.Name("__i__", ast.Load()), ast.Load())
        if sub:
            out = site.expand(ast.fix_missing_locations(_expand(out, sub)))
    return out


def expand_per_alt(site: Site, e: ast.expr) -> list[ast.expr]:
    """`e` with locals expanded, once per path alternative reaching the site (site.expand only expands what all alternatives agree on)"""
    from sa.flow import expand as _expand

    outs: dict[str, ast.expr] = {}
    for a in site.state.alts or []:
        x = _expand(e, {k: v for k, v in a.env.items() if k not in site.shadow})
        outs.setdefault(ast.dump(x), x)
    return list(outs.values()) or [e]



# --------------------------------------------------------------------------- memoisation keyed by less than the result depends on
def memo_audit(f, repo=None) -> list[tuple[str, ast.AST, list[str], list[str]]]:
    """Caches a function consults before computing: (container, node, problems, unknown) per container kept OUTSIDE the call (module-level name,
    class or instance attribute, mutable default) that is read with a key and whose hit is returned. `problems` name parameters the function's result
    depends on that the key does not determine: missing altogether, or present only through a projection that loses information (`x.tobytes()` without
    `x.shape`, `id(x)`, `len(x)`, `x.name`, ...). `unknown` lists projections this audit cannot judge. A parameter used whole (`x`, `tuple(x)`,
    `x.tobytes()` together with `x.shape`) is determined. Purely structural, nothing is executed."""
    fn = f.node
    params = [a.arg for a in [*fn.args.posonlyargs, *fn.args.args, *fn.args.kwonlyargs] if a.arg not in ("self", "cls")]
    if fn.args.vararg:
        params.append(fn.args.vararg.arg)
    local_stores = {n.id for n in ast.walk(fn) if isinstance(n, ast.Name) and isinstance(n.ctx, ast.Store)}
    assigns = {}
    for n in ast.walk(fn):
        if isinstance(n, ast.Assign) and len(n.targets) == 1 and isinstance(n.targets[0], ast.Name):
            assigns.setdefault(n.targets[0].id, []).append(n.value)
        if isinstance(n, ast.NamedExpr) and isinstance(n.target, ast.Name):
            assigns.setdefault(n.target.id, []).append(n.value)

    def outside(e: ast.AST) -> str | None:
        if isinstance(e, ast.Name) and e.id not in local_stores and e.id not in params and e.id in getattr(f.module, "consts", {}) or (
                isinstance(e, ast.Name) and e.id not in local_stores and e.id not in params and e.id.startswith("_") and not e.id.startswith("__")):
            return e.id
        if isinstance(e, ast.Attribute) and isinstance(e.value, ast.Name) and e.value.id in ("self", "cls") and ("cache" in e.attr.lower() or "memo" in e.attr.lower()):
            return f"{e.value.id}.{e.attr}"
        # a container created once in the class body is shared by all instances (and outlives every pass run)
        cls_ = getattr(f, "cls", None)
        if isinstance(e, ast.Attribute) and isinstance(e.value, ast.Name) and e.value.id in ("self", "cls") and cls_ is not None:
            cv = cls_.consts.get(e.attr)
            if isinstance(cv, ast.Dict) and not cv.keys or (isinstance(cv, ast.Call) and isinstance(cv.func, ast.Name) and cv.func.id in ("dict", "defaultdict", "OrderedDict") and not cv.args):
                return f"type({e.value.id}).{e.attr}"
        if isinstance(e, ast.Attribute) and isinstance(e.value, ast.Call) and ast.unparse(e.value.func) == "type" and ("cache" in e.attr.lower() or "memo" in e.attr.lower()):
            return ast.unparse(e)
        return None

    reads: list[tuple[str, ast.expr, ast.AST]] = []
    for n in ast.walk(fn):
        if isinstance(n, ast.Call) and isinstance(n.func, ast.Attribute) and n.func.attr in ("get", "setdefault") and n.args:
            c = outside(n.func.value)
            if c:
                reads.append((c, n.args[0], n))
        if isinstance(n, ast.Compare) and len(n.ops) == 1 and isinstance(n.ops[0], (ast.In, ast.NotIn)):
            c = outside(n.comparators[0])
            if c:
                reads.append((c, n.left, n))
        if isinstance(n, ast.Subscript) and isinstance(n.ctx, ast.Load):
            c = outside(n.value)
            if c and any(isinstance(s_, ast.Subscript) and isinstance(s_.ctx, ast.Store) and outside(s_.value) == c for s_ in ast.walk(fn)):
                reads.append((c, n.slice, n))
    # only containers the function also fills are caches of its own result
    written = {outside(s_.value) for s_ in ast.walk(fn) if isinstance(s_, ast.Subscript) and isinstance(s_.ctx, ast.Store)} | {
        outside(c_.func.value) for c_ in ast.walk(fn) if isinstance(c_, ast.Call) and isinstance(c_.func, ast.Attribute) and c_.func.attr in ("setdefault", "update")}
    out = []
    seen = set()
    for cont, key, node in reads:
        if cont not in written or cont in seen:
            continue
        seen.add(cont)
        k = key
        for _ in range(4):
            if isinstance(k, ast.Name) and k.id in assigns and len(assigns[k.id]) == 1:
                k = assigns[k.id][0]
        # which parameters does the result depend on: those read anywhere outside the key expression
        key_nodes = {id(x) for x in ast.walk(k)}
        used = {n.id for n in ast.walk(fn) if isinstance(n, ast.Name) and n.id in params and isinstance(n.ctx, ast.Load) and id(n) not in key_nodes}
        uses_self = any(isinstance(n, ast.Attribute) and isinstance(n.value, ast.Name) and n.value.id == "self" and outside(n) is None for n in ast.walk(fn))
        problems, unknown = [], []
        proj: dict[str, set[str]] = {}
        for n in ast.walk(k):
            if isinstance(n, ast.Name) and n.id in params:
                proj.setdefault(n.id, set())
        # projections of each parameter inside the key
        def walk(e: ast.AST, wrap: str | None) -> None:
            if isinstance(e, ast.Name) and e.id in params:
                proj.setdefault(e.id, set()).add(wrap or "whole")
                return
            if isinstance(e, ast.Attribute) and isinstance(e.value, ast.Name) and e.value.id in params:
                proj.setdefault(e.value.id, set()).add("." + e.attr)
                return
            if isinstance(e, ast.Call) and isinstance(e.func, ast.Attribute) and isinstance(e.func.value, ast.Name) and e.func.value.id in params and not e.args:
                proj.setdefault(e.func.value.id, set()).add("." + e.func.attr + "()")
                return
            if isinstance(e, ast.Call) and isinstance(e.func, ast.Name) and e.func.id in ("tuple", "frozenset", "str", "repr") and len(e.args) == 1:
                walk(e.args[0], wrap)
                return
            if isinstance(e, ast.Call) and isinstance(e.func, ast.Name) and e.func.id in ("id", "len", "hash", "type") and len(e.args) == 1:
                walk(e.args[0], e.func.id + "()")
                return
            for c_ in ast.iter_child_nodes(e):
                walk(c_, wrap)
        walk(k, None)
        for p in sorted(used):
            ps = proj.get(p)
            if not ps:
                problems.append(f"`{p}` is not part of the key")
                continue
            if "whole" in ps:
                continue
            if ".tobytes()" in ps:
                if ".shape" not in ps:
                    problems.append(f"`{p}.tobytes()` without `{p}.shape`: arrays of different shape with the same elements share an entry")
                continue
            lossy = [x for x in ps if x in ("id()", "len()", "hash()", "type()", ".name", ".shape", ".size", ".ndim", ".dtype", ".num_dims")]
            if lossy and len(lossy) == len(ps):
                problems.append(f"`{p}` enters the key only through {sorted(ps)}")
            else:
                unknown.append(f"`{p}` through {sorted(ps)}")
        if uses_self and not any(isinstance(n, ast.Name) and n.id == "self" for n in ast.walk(k)) and cont.split(".")[0] != "self":
            problems.append("the instance (`self`) is not part of the key of a cache shared between instances")
        out.append((cont, node, problems, unknown))
    return out


def loop_dedupe_audit(fl, func) -> list[tuple[str, object, set[str], set[str]]]:
    """local tables that remember a value per key ACROSS the iterations of a loop and skip the computation on a hit: (table, store site, loop variables
    the stored value depends on, loop variables the key determines). The stored value is then reused for every later iteration with the same key, so
    every loop variable it depends on has to be determined by the key."""
    out = []
    tables = set()
    for st in fl.stmts(ast.Assign, ast.AnnAssign):
        tgt = st.node.targets[0] if isinstance(st.node, ast.Assign) else st.node.target
        v = st.node.value
        if isinstance(tgt, ast.Name) and v is not None and (isinstance(v, ast.Dict) and not v.keys or (isinstance(v, ast.Call) and callee_name(v) in ("dict", "defaultdict", "OrderedDict") and not v.args)):
            tables.add(tgt.id)
    for st in fl.stmts(ast.Assign):
        # also the chained form `x = table[key] = value`
        tgt = next((t_ for t_ in st.node.targets if isinstance(t_, ast.Subscript) and isinstance(t_.value, ast.Name) and t_.value.id in tables), None)
        if not (st.reachable and tgt is not None):
            continue
        d = tgt.value.id
        loops = [l for l in st.loops if isinstance(l, ast.For)]
        if not loops:
            continue
        lp = loops[-1]
        lvars = {n.id for n in ast.walk(lp.target) if isinstance(n, ast.Name)}
        # a hit skips the computation: `if key in d: continue` / `if key not in d: <compute>` / d.get(key) tested
        hit = any(isinstance(n, ast.Compare) and len(n.ops) == 1 and isinstance(n.ops[0], (ast.In, ast.NotIn)) and isinstance(n.comparators[0], ast.Name) and n.comparators[0].id == d
                  for x in lp.body for n in ast.walk(x))
        if not hit:
            continue
        # .. and the remembered value is USED in place of a computed one: a table whose entries are only compared with the current value
        # (`if k in seen and seen[k] != v: <conflict>`) checks consistency, it does not reuse anything
        cmp_operands = {id(o) for x in func.node.body for n in ast.walk(x) if isinstance(n, ast.Compare) and all(isinstance(op_, (ast.Eq, ast.NotEq, ast.Is, ast.IsNot)) for op_ in n.ops)
                        for o in [n.left, *n.comparators]}
        reused = any(
            (isinstance(n, ast.Subscript) and isinstance(n.ctx, ast.Load) and isinstance(n.value, ast.Name) and n.value.id == d and id(n) not in cmp_operands)
            or (isinstance(n, ast.Call) and isinstance(n.func, ast.Attribute) and n.func.attr in ("get", "setdefault") and isinstance(n.func.value, ast.Name) and n.func.value.id == d
                and id(n) not in cmp_operands)
            or (isinstance(n, ast.Call) and isinstance(n.func, ast.Attribute) and n.func.attr in ("values", "items") and isinstance(n.func.value, ast.Name) and n.func.value.id == d)
            for x in func.node.body for n in ast.walk(x))  # in the loop or after it
        if not reused:
            continue
        # a hit that is compared with the value of this iteration (`d[k] != v` where v is what gets stored) is verified, not trusted
        vtxt = ast.unparse(st.node.value)
        verified = any(
            isinstance(n, ast.Compare) and len(n.ops) == 1 and isinstance(n.ops[0], (ast.Eq, ast.NotEq, ast.Is, ast.IsNot))
            and {True} == {True for a_, b_ in ((n.left, n.comparators[0]), (n.comparators[0], n.left))
                           if isinstance(a_, ast.Subscript) and isinstance(a_.value, ast.Name) and a_.value.id == d and ast.unparse(b_) == vtxt}
            for x in lp.body for n in ast.walk(x))
        if verified:
            continue
        # the key determines a loop variable only if it CONTAINS it (a function of it, like `operands[i]`, may coincide for different i)
        k_ = norm.primary(st.expand(tgt.slice))
        elts = k_.elts if isinstance(k_, ast.Tuple) else [k_]
        key_vars = {norm.primary(e).id for e in elts if isinstance(norm.primary(e), ast.Name) and norm.primary(e).id in lvars}
        cone = fl.cone(st.node.value, st, inline=0)
        deps = norm.free_names(cone) & lvars
        # loop variables bound together (zip / enumerate) are distinct coordinates: none determines another
        out.append((d, st, deps, key_vars))
    return out


def cache_audit(repo, chk, prop: str) -> None:
    """cross-cutting: in every function a property's rules analysed, a table that remembers a computed value across loop iterations (or across
    calls) and skips the computation on a hit must be keyed by everything the value was computed from - otherwise a later iteration / call gets the
    result of other inputs, whatever the function computes"""
    from sa.flow import Flow

    rule = f"{prop}.cache-keys"
    chk.rule(rule, "in the analysed functions no table hands an earlier result to a later iteration or call under a key that does not determine "
             "everything the result was computed from", floor=0)
    for key in sorted(chk.functions):
        rel, _, qual = key.partition(":")
        f = repo.try_func(rel, qual) if qual else None
        if f is None or not isinstance(f.node, (ast.FunctionDef, ast.AsyncFunctionDef)):
            continue
        fn = f.node
        # across calls
        try:
            for cont, node, problems, _unknown in memo_audit(f, repo):
                chk.result(not problems, rule, f"{f.key}:{cont}", f"{f.module.relpath}:{getattr(node, 'lineno', fn.lineno)}",
                           f"`{cont}` is keyed by what the result depends on",
                           f"`{cont}` is consulted before computing and returns an earlier result although " + "; ".join(problems[:3]))
        except AnalysisError:
            raise
        # across iterations: only functions that create a local table and store into it inside a loop are walked
        empties = {t.id for n in ast.walk(fn) if isinstance(n, (ast.Assign, ast.AnnAssign)) and n.value is not None
                   and (isinstance(n.value, ast.Dict) and not n.value.keys or (isinstance(n.value, ast.Call) and callee_name(n.value) in ("dict", "defaultdict", "OrderedDict") and not n.value.args))
                   for t in (n.targets if isinstance(n, ast.Assign) else [n.target]) if isinstance(t, ast.Name)}
        stores = any(isinstance(x, ast.Subscript) and isinstance(x.ctx, ast.Store) and isinstance(x.value, ast.Name) and x.value.id in empties
                     for lp in ast.walk(fn) if isinstance(lp, ast.For) for x in ast.walk(lp))
        if not (empties and stores):
            continue
        fl = Flow(f, repo)
        for d, st, deps, key_vars in loop_dedupe_audit(fl, f):
            missing = deps - key_vars
            chk.result(not missing, rule, f"{f.key}:{d}", st.where(), f"`{d}` is keyed by {sorted(key_vars)}, which determine the stored value",
                       f"`{d}` remembers a value computed from {sorted(deps)} under a key that only determines {sorted(key_vars)}: a later iteration with the same key "
                       f"and another {sorted(missing)} gets the first one's value")

#!/usr/bin/env python3
"""Development tool (not a registered check): confirm a seeded change produced by a sub-agent.

usage: confirm_seed.py <src dir with patch.diff, demo.*, meta.json> <dest id>   e.g.  /tmp/seeded_out/C17/a C17-a

Steps, all in a throw-away copy of /repo's HEAD outside /repo and /verif:
  1. pristine copy + patch -> `ast`-compiles, baseline pytest still 68 passed
  2. runnable copy (irdl_options lists -> tuples): demo exits 0 without the patch
  3. runnable copy + patch: demo exits non-zero
On success the change is stored as /verif/seeded/<dest id>/ with the confirmation log in meta.json.
"""
import json, os, shutil, subprocess, sys, tempfile, pathlib, re

src = pathlib.Path(sys.argv[1]); dest_id = sys.argv[2]
VERIF = pathlib.Path(__file__).resolve().parent.parent
patch = src / "patch.diff"
demo = next((src / n for n in ("demo.py", "demo.sh") if (src / n).exists()), None)
assert patch.exists() and demo is not None, "patch.diff / demo missing"
log = []
def sh(cmd, cwd=None, env=None, timeout=1200):
    p = subprocess.run(cmd, shell=True, cwd=cwd, env=env, capture_output=True, text=True, timeout=timeout)
    return p.returncode, (p.stdout + p.stderr)
tmp = pathlib.Path(tempfile.mkdtemp(prefix="confirm_", dir="/tmp"))
try:
    pristine = tmp / "pristine"; runnable = tmp / "runnable"
    sh(f"git -C /repo archive HEAD | tar -x -C {tmp} --one-top-level=pristine")
    shutil.copytree(pristine, runnable)
    sh("sed -i 's/irdl_options = \\[\\(.*\\)\\]$/irdl_options = (\\1,)/' snaxc/dialects/dart.py snaxc/dialects/accfg.py snaxc/dialects/phs.py snaxc/dialects/snax_stream.py snaxc/dialects/pipeline.py", cwd=runnable)
    def run_demo(root):
        env = dict(os.environ, PYTHONPATH=str(root))
        cmd = f"/venv/bin/python {demo} {root}" if demo.suffix == ".py" else f"sh {demo} {root}"
        return sh(cmd, cwd=src, env=env)
    rc0, out0 = run_demo(runnable)
    log.append(f"demo on unchanged runnable copy: exit {rc0}")
    rc, out = sh(f"git apply --unsafe-paths --directory={pristine} {patch}", cwd="/") if False else sh(f"patch -p1 -s < {patch}", cwd=pristine)
    log.append(f"patch applies to pristine HEAD: exit {rc} {out.strip()[:200]}")
    ok_apply = rc == 0
    rc, out = sh(f"patch -p1 -s < {patch}", cwd=runnable)
    ok_apply = ok_apply and rc == 0
    rcc, outc = sh("/venv/bin/python -m compileall -q snaxc", cwd=pristine)
    log.append(f"compileall on patched pristine copy: exit {rcc}")
    rct, outt = sh("/venv/bin/python -m pytest -q -p no:cacheprovider --continue-on-collection-errors 2>&1 | tail -1", cwd=pristine)
    m = re.search(r"(\d+) passed", outt)
    passed = int(m.group(1)) if m else -1
    failed = re.search(r"(\d+) failed", outt)
    log.append(f"baseline pytest on patched pristine copy: {outt.strip()}")
    rc1, out1 = run_demo(runnable)
    log.append(f"demo on patched runnable copy: exit {rc1}: {out1.strip().splitlines()[-1][:300] if out1.strip() else ''}")
    ok = ok_apply and rc0 == 0 and rc1 != 0 and rcc == 0 and passed == 68 and not failed
    print("\n".join(log)); print("CONFIRMED" if ok else "NOT CONFIRMED")
    if not ok:
        print("--- demo output unchanged:\n", out0[-1500:], "\n--- demo output patched:\n", out1[-1500:])
        sys.exit(1)
    dst = VERIF / "seeded" / dest_id
    if dst.exists(): shutil.rmtree(dst)
    shutil.copytree(src, dst, ignore=shutil.ignore_patterns("regress_*", "__pycache__", "x.diff", "scratch"))
    meta = json.loads((dst / "meta.json").read_text()) if (dst / "meta.json").exists() else {}
    meta["confirmed_by_main"] = {"at_repo_head": subprocess.check_output("git -C /repo rev-parse --short HEAD", shell=True, text=True).strip(), "log": log}
    (dst / "meta.json").write_text(json.dumps(meta, indent=1))
finally:
    shutil.rmtree(tmp, ignore_errors=True)

#!/usr/bin/env python3
"""Development tool: run the checks against behaviour-preserving refactorings produced by sub-agents.

usage: run_refactors.py <dir with a/ b/ c/ each holding patch.diff + meta.json> <property> [--keep] [--tag=rg]
Each patch is applied to a throw-away copy of /repo HEAD; the property's check must exit 0 (a VIOLATION is a false alarm of the
checker; exit 2 means the check no longer recognises the code and fails closed).  With --keep the refactoring is stored as
/verif/seeded/<property>-rf-<variant>/ (patch.diff, meta.json) and becomes a silent twin of the thorough tier.
"""
import json, os, pathlib, shutil, subprocess, sys, tempfile
VERIF = pathlib.Path(__file__).resolve().parent.parent
src = pathlib.Path(sys.argv[1]); prop = sys.argv[2]; keep = "--keep" in sys.argv
tag = next((a.split("=", 1)[1] for a in sys.argv if a.startswith("--tag=")), "rf")  # batch label: seeded/<prop>-<tag>-<variant>/
for v in sorted(p.name for p in src.iterdir() if (p / "patch.diff").exists()):
    tmp = pathlib.Path(tempfile.mkdtemp(prefix="rfrun_", dir="/tmp"))
    try:
        subprocess.run(f"git -C /repo archive HEAD | tar -x -C {tmp}", shell=True, check=True)
        p = subprocess.run(f"patch -p1 -s < {src / v / 'patch.diff'}", shell=True, cwd=tmp, capture_output=True, text=True)
        if p.returncode:
            print(f"{prop}-{tag}-{v}: patch-failed {p.stdout[:100]}")
            continue
        c = subprocess.run("/venv/bin/python -m compileall -q snaxc", shell=True, cwd=tmp, capture_output=True, text=True)
        r = subprocess.run([str(VERIF / "verify"), prop, "--repo", str(tmp)], capture_output=True, text=True, env=dict(os.environ, VERIF_NO_EVIDENCE="1"))
        lines = [l for l in r.stdout.splitlines() if not l.startswith(("      fact", "KNOWN-FINDING", "note:"))]
        print(f"{prop}-{tag}-{v}: compile={c.returncode} exit={r.returncode} {lines[-1][:110] if lines else r.stderr[-200:]}")
        if r.returncode:
            for l in lines[:-1]:
                if not l.startswith("VIOLATION"):
                    print("     ", l[:330])
        if keep:
            dst = VERIF / "seeded" / f"{prop}-{tag}-{v}"
            dst.mkdir(parents=True, exist_ok=True)
            shutil.copy(src / v / "patch.diff", dst / "patch.diff")
            meta = json.loads((src / v / "meta.json").read_text()) if (src / v / "meta.json").exists() else {}
            meta["kind"] = "refactoring"
            meta["check_exit_when_kept"] = r.returncode
            (dst / "meta.json").write_text(json.dumps(meta, indent=1))
    finally:
        shutil.rmtree(tmp, ignore_errors=True)

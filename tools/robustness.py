#!/usr/bin/env python3
"""Development-time robustness test of the checks against behaviour-preserving edits of the WHOLE tree.

Builds scratch copies of /repo (outside /repo and /verif, removed afterwards) in which
  1. every file is re-printed by ast.unparse (layout, comments, parentheses, quotes change),
  2. every local variable (incl. loop, comprehension and walrus targets) of every function is renamed,
  3. the parameters of every match_and_rewrite are renamed as well,
and runs every property's check on each copy.  Every check must stay silent (exit 0); a floor shortfall
(exit 2) or a violation (exit 1) is a defect of the checker: a rule keyed on a spelling instead of on the
program.  Not registered in MANIFEST (it says nothing about /repo); results are quoted in DESIGN.md 10.5.
"""
import ast
import os
import pathlib
import shutil
import subprocess
import sys
import tempfile

VERIF = pathlib.Path(__file__).resolve().parent.parent
REPO = os.environ.get("VERIF_REPO", "/repo")


def unparse_all(root: pathlib.Path) -> None:
    for p in root.rglob("*.py"):
        p.write_text(ast.unparse(ast.parse(p.read_text())) + "\n")


def rename_locals(root: pathlib.Path) -> int:
    def process(fn) -> int:
        params, glob, stored, inclass = set(), set(), set(), set()
        for n in ast.walk(fn):
            if isinstance(n, (ast.FunctionDef, ast.AsyncFunctionDef, ast.Lambda)):
                a = n.args
                for x in [*a.posonlyargs, *a.args, *a.kwonlyargs] + ([a.vararg] if a.vararg else []) + ([a.kwarg] if a.kwarg else []):
                    params.add(x.arg)
            if isinstance(n, (ast.Global, ast.Nonlocal)):
                glob |= set(n.names)
        for c in ast.walk(fn):
            if isinstance(c, ast.ClassDef):
                for n in ast.walk(c):
                    if isinstance(n, ast.Name) and isinstance(n.ctx, (ast.Store, ast.Del)):
                        inclass.add(n.id)
        for n in ast.walk(fn):
            if isinstance(n, ast.Name) and isinstance(n.ctx, (ast.Store, ast.Del)):
                stored.add(n.id)
        defs = {n.name for n in ast.walk(fn) if isinstance(n, (ast.FunctionDef, ast.ClassDef)) and n is not fn}
        ren = {x for x in stored - inclass if x not in params and x not in glob and x not in defs and not x.startswith("__")}
        for n in ast.walk(fn):
            if isinstance(n, ast.Name) and n.id in ren:
                n.id += "_r"
        return len(ren)

    tot = 0
    for p in root.rglob("*.py"):
        t = ast.parse(p.read_text())
        for node in t.body:
            if isinstance(node, ast.FunctionDef):
                tot += process(node)
            if isinstance(node, ast.ClassDef):
                for m in node.body:
                    if isinstance(m, ast.FunctionDef):
                        tot += process(m)
        out = ast.unparse(t)
        compile(out, str(p), "exec")
        p.write_text(out + "\n")
    return tot


def rename_params(root: pathlib.Path) -> int:
    tot = 0
    for p in root.rglob("*.py"):
        t = ast.parse(p.read_text())
        for cls in [n for n in ast.walk(t) if isinstance(n, ast.ClassDef)]:
            for fn in cls.body:
                if isinstance(fn, ast.FunctionDef) and fn.name == "match_and_rewrite":
                    a = fn.args
                    names = [x.arg for x in [*a.posonlyargs, *a.args] if x.arg not in ("self", "cls")]
                    inner = set()
                    for n in ast.walk(fn):
                        if n is not fn and isinstance(n, (ast.FunctionDef, ast.Lambda)):
                            inner |= {x.arg for x in [*n.args.posonlyargs, *n.args.args]}
                    ren = {n for n in names if n not in inner}
                    for x in [*a.posonlyargs, *a.args]:
                        if x.arg in ren:
                            x.arg += "_p"
                    for n in ast.walk(fn):
                        if isinstance(n, ast.Name) and n.id in ren:
                            n.id += "_p"
                    tot += len(ren)
        out = ast.unparse(t)
        compile(out, str(p), "exec")
        p.write_text(out + "\n")
    return tot


def logic_rewrites(root: pathlib.Path) -> int:
    """`if c: A else: B` -> `if not (c): B else: A` (only when B is not an elif chain head, to keep chains readable for the reader of a
    report; still equivalent), `x is not None` -> `not (x is None)`, `a not in b` -> `not (a in b)`"""
    n = 0

    class R(ast.NodeTransformer):
        def visit_If(self, node: ast.If):
            nonlocal n
            self.generic_visit(node)
            if node.orelse and not (len(node.orelse) == 1 and isinstance(node.orelse[0], ast.If)) and not (len(node.body) == 1 and isinstance(node.body[0], ast.If)):
                n += 1
                return ast.copy_location(ast.If(ast.UnaryOp(ast.Not(), node.test), node.orelse, node.body), node)
            return node

        def visit_Compare(self, node: ast.Compare):
            nonlocal n
            self.generic_visit(node)
            if len(node.ops) == 1 and isinstance(node.ops[0], (ast.IsNot, ast.NotIn)):  # `!=` is left alone: on numpy arrays `not (a == b)` is not `a != b`
                pos = {ast.IsNot: ast.Is, ast.NotIn: ast.In}[type(node.ops[0])]()
                n += 1
                return ast.copy_location(ast.UnaryOp(ast.Not(), ast.Compare(node.left, [pos], node.comparators)), node)
            return node

    for p in root.rglob("*.py"):
        t = R().visit(ast.parse(p.read_text()))
        out = ast.unparse(ast.fix_missing_locations(t))
        compile(out, str(p), "exec")
        p.write_text(out + "\n")
    return n


def structure_rewrites(root: pathlib.Path) -> int:
    """(1) `if c: <exits>` followed by more statements -> `if c: <exits> else: <the rest>`;
       (2) `t = f(g(x), ...)` -> `_h = g(x); t = f(_h, ...)` when the first positional argument is itself a call (evaluation order kept).
       (`x += e` -> `x = x + e` is NOT applied: it is not behaviour-preserving for aliased lists.)"""
    n = 0
    counter = [0]

    def rewrite_block(stmts: list[ast.stmt]) -> list[ast.stmt]:
        nonlocal n
        out: list[ast.stmt] = []
        i = 0
        while i < len(stmts):
            st = stmts[i]
            for fld in ("body", "orelse", "finalbody"):
                sub = getattr(st, fld, None)
                if isinstance(sub, list) and sub and isinstance(sub[0], ast.stmt):
                    setattr(st, fld, rewrite_block(sub))
            if isinstance(st, ast.Try):
                for h in st.handlers:
                    h.body = rewrite_block(h.body)
            if isinstance(st, ast.If) and not st.orelse and st.body and isinstance(st.body[-1], (ast.Return, ast.Continue, ast.Raise, ast.Break)) and i + 1 < len(stmts) \
                    and not any(isinstance(x, (ast.FunctionDef, ast.ClassDef)) for x in stmts[i + 1:]):
                st.orelse = rewrite_block(stmts[i + 1:])
                out.append(st)
                n += 1
                return out
            if isinstance(st, ast.Assign) and len(st.targets) == 1 and isinstance(st.targets[0], ast.Name) and isinstance(st.value, ast.Call) and st.value.args \
                    and isinstance(st.value.args[0], ast.Call) and not isinstance(st.value.func, ast.Call) and not any(isinstance(x, (ast.NamedExpr, ast.Starred, ast.Lambda)) for x in ast.walk(st.value)) \
                    and isinstance(st.value.func, ast.Name):
                counter[0] += 1
                tmp = f"_h{counter[0]}"
                out.append(ast.copy_location(ast.Assign([ast.Name(tmp, ast.Store())], st.value.args[0]), st))
                st.value.args[0] = ast.Name(tmp, ast.Load())
                n += 1
            out.append(st)
            i += 1
        return out

    for p in root.rglob("*.py"):
        t = ast.parse(p.read_text())
        for node in ast.walk(t):
            if isinstance(node, (ast.FunctionDef, ast.AsyncFunctionDef)):
                node.body = rewrite_block(node.body)
        out = ast.unparse(ast.fix_missing_locations(t))
        compile(out, str(p), "exec")
        p.write_text(out + "\n")
    return n


def main() -> int:
    props = sys.argv[1:] or [f"C{i:02d}" for i in range(1, 21)]
    worst = 0
    for label, steps in (("unparse", [unparse_all]), ("rename", [rename_locals, rename_params]), ("logic", [logic_rewrites]), ("struct", [structure_rewrites])):
        tmp = pathlib.Path(tempfile.mkdtemp(prefix="verif_robust_"))
        try:
            subprocess.run(f"git -C {REPO} archive HEAD | tar -x -C {tmp}", shell=True, check=True)
            for st in steps:
                st(tmp / "snaxc")
            for p in props:
                r = subprocess.run([str(VERIF / "verify"), p, "--repo", str(tmp)], capture_output=True, text=True, env={**os.environ, "VERIF_NO_EVIDENCE": "1"})
                last = r.stdout.strip().splitlines()[-1] if r.stdout.strip() else r.stderr.strip()[-200:]
                flag = "" if r.returncode == 0 else "   <<<<<< checker defect"
                print(f"{label:8s} {p} exit={r.returncode} {last[:140]}{flag}")
                worst = max(worst, r.returncode)
        finally:
            shutil.rmtree(tmp, ignore_errors=True)
    return worst


if __name__ == "__main__":
    sys.exit(main())

#!/usr/bin/env python3
"""Freeze the list of functions that exist on the reference tree (sa/known_funcs.json).

The flow engine inlines, at walk time, calls to repo helpers that are NOT in this list: a helper that did not exist when the
rules were written and confirmed is the product of an extract-function refactoring, and walking its body in the caller's
state makes the refactoring invisible to the rules (guards of the caller dominate the sites that moved into the helper).
Functions that are in the list are never inlined: the rules know them (many are anchors with rules of their own).
Re-run only when rules have been re-confirmed against a new reference tree.
"""
import json, pathlib, sys
sys.path.insert(0, str(pathlib.Path(__file__).resolve().parent.parent))
from sa.model import Repo

repo = Repo(sys.argv[1] if len(sys.argv) > 1 else "/repo")
keys = set()
def add(f):
    keys.add(f.key)
for m in repo.modules.values():
    for f in m.funcs.values():
        add(f)
    for c in m.classes.values():
        for f in c.methods.values():
            add(f)
import ast
# nested functions
for m in repo.modules.values():
    for n in ast.walk(m.tree):
        if isinstance(n, (ast.FunctionDef, ast.AsyncFunctionDef)):
            keys.add(f"{m.relpath}:*.{n.name}")
out = pathlib.Path(__file__).resolve().parent.parent / "sa" / "known_funcs.json"
out.write_text(json.dumps(sorted(keys), indent=0))
print(len(keys), "functions frozen in", out)

#!/usr/bin/env python3
"""Development tool: run the registered checks against every kept seeded change.

For each /verif/seeded/<id>/ a throw-away copy of /repo's working tree gets the patch applied and
`./verify <property> --repo <copy>` is run (evidence files are NOT touched: VERIF_NO_EVIDENCE=1).
Prints which rule caught which change; writes /verif/seeded/RESULTS.json.
usage: run_seeds.py [id ...]
"""
import json, os, pathlib, shutil, subprocess, sys, tempfile, concurrent.futures as cf
VERIF = pathlib.Path(__file__).resolve().parent.parent
# behaviour-preserving refactorings (seeded/<id>-rf-<v>/) are twins, not seeds: tools/run_refactors.py and the selftest run them
ids = sys.argv[1:] or sorted(p.name for p in (VERIF / "seeded").iterdir() if (p / "patch.diff").exists() and not __import__("re").search(r"-r[a-z]-", p.name))
manifest = json.loads((VERIF / "MANIFEST.json").read_text()) if (VERIF / "MANIFEST.json").exists() else {"checks": []}
claimed = {c["property_id"] for c in manifest["checks"]}
def one(sid):
    d = VERIF / "seeded" / sid
    meta = json.loads((d / "meta.json").read_text())
    prop = meta.get("property") or sid.split("-")[0]
    tmp = pathlib.Path(tempfile.mkdtemp(prefix="seedrun_", dir="/tmp"))
    try:
        subprocess.run(f"git -C /repo archive HEAD | tar -x -C {tmp}", shell=True, check=True)
        p = subprocess.run(f"patch -p1 -s < {d/'patch.diff'}", shell=True, cwd=tmp, capture_output=True, text=True)
        if p.returncode: return sid, prop, "patch-failed", []
        env = dict(os.environ, VERIF_NO_EVIDENCE="1")
        r = subprocess.run([str(VERIF / "verify"), prop, "--repo", str(tmp)], capture_output=True, text=True, env=env)
        rules = sorted({l.split(": ", 1)[1].split(" ")[0] for l in r.stdout.splitlines() if ": C" in l and "[" in l and not l.startswith(("KNOWN", "note", "VIOLATION"))})
        status = {0: "MISSED", 1: "caught", 2: "analysis-error"}.get(r.returncode, f"exit{r.returncode}")
        if prop not in claimed: status += " (property not claimed)"
        return sid, prop, status, rules
    finally:
        shutil.rmtree(tmp, ignore_errors=True)
with cf.ThreadPoolExecutor(16) as ex:
    res = list(ex.map(one, ids))
out = {}
for sid, prop, status, rules in res:
    print(f"{sid:10s} {prop} {status:16s} {', '.join(rules)}")
    out[sid] = {"property": prop, "status": status, "rules": rules}
if not sys.argv[1:]:
    (VERIF / "seeded" / "RESULTS.json").write_text(json.dumps(out, indent=1))

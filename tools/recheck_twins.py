#!/usr/bin/env python3
"""Development tool: re-run the check of every kept refactoring twin (seeded/<Cxx>-rf-<v>, -rg-<v>, ...) on a scratch copy of /repo's HEAD with the
twin applied and record the exit code in its meta.json (`check_exit_when_kept`). A twin must never give exit 1.
usage: recheck_twins.py [id ...]"""
import json, os, pathlib, shutil, subprocess, sys, tempfile, re, concurrent.futures as cf
VERIF = pathlib.Path(__file__).resolve().parent.parent
ids = sys.argv[1:] or sorted(p.name for p in (VERIF / "seeded").iterdir() if (p / "patch.diff").exists() and re.search(r"-r[a-z]-", p.name))
def one(sid):
    d = VERIF / "seeded" / sid
    meta = json.loads((d / "meta.json").read_text())
    prop = sid.split("-")[0]
    tmp = pathlib.Path(tempfile.mkdtemp(prefix="twin_", dir="/tmp"))
    try:
        subprocess.run(f"git -C /repo archive HEAD | tar -x -C {tmp}", shell=True, check=True)
        p = subprocess.run(f"patch -p1 -s < {d/'patch.diff'}", shell=True, cwd=tmp, capture_output=True, text=True)
        if p.returncode:
            return sid, "patch-failed", meta.get("check_exit_when_kept")
        r = subprocess.run([str(VERIF / "verify"), prop, "--repo", str(tmp), "--no-selftest"], capture_output=True, text=True, env=dict(os.environ, VERIF_NO_EVIDENCE="1"))
        old = meta.get("check_exit_when_kept")
        if r.returncode in (0, 2) and old != r.returncode:
            meta["check_exit_when_kept"] = r.returncode
            (d / "meta.json").write_text(json.dumps(meta, indent=1))
        return sid, r.returncode, old
    finally:
        shutil.rmtree(tmp, ignore_errors=True)
with cf.ThreadPoolExecutor(16) as ex:
    res = list(ex.map(one, ids))
n = {0: 0, 1: 0, 2: 0}
for sid, rc, old in res:
    if rc != old or rc not in (0,):
        print(f"{sid:10s} exit={rc} (was {old})")
    if rc in n: n[rc] += 1
print(f"{len(res)} twins: {n[0]} silent, {n[2]} fail closed (exit 2), {n[1]} FALSE VIOLATIONS")

#!/usr/bin/env python3
"""Regenerate /verif/MANIFEST.json from the table below (keeps the manifest valid at all times)."""
import json, pathlib
VERIF = pathlib.Path(__file__).resolve().parent.parent

CLAIMED = {
    # id: (level text, level note, technique, design ref)
    "C17": (
        "Static guard-dominance, floor-division classification and dependency obligations on ChangeForStep, "
        "MergeForLoops, LoopHoistPureOperations and MoveMemrefDims: every IR mutation of each pattern is dominated by "
        "the preconditions under which the rewrite preserves the executed operation sequence (lb == 0, no iter_args, "
        "steps 1, purity/operands-outside for hoisting), the trip count is a ceiling, the induction values are "
        "k/ub_inner and k%ub_inner with the same constant, the dynamic subview size operand is chosen by counting "
        "dynamic entries. Decides these structural necessary conditions for every execution of the pass code, not the "
        "operation sequence itself; the imperfect-nest merge is a listed known finding (F-11). Nested helpers of MoveMemrefDims that take an op of the matched type never read the enclosing pattern's matched op. Round-3 clauses: replace_uses_with_if spares only ops built here from the replaced value (by identity); dynamic subview sizes are accepted only from constant / affine.min / derivable dim producers (C17.dim-sources). Round-4 rule (F-40 fixed): the sizes of a subview are indexed by a result dimension only for subviews known to keep their rank, or through a count-checked mapping (C17.subview-rank). Round-5 rule (F-43 fixed): a block-argument memref is accepted only after relating its block to the loop of the dim (C17.block-args).",
        "Python semantics as modelled by the syntax-directed walker (sa/flow.py); xdsl API names (rewriter.*, "
        "replace_uses_with_if, InsertPoint) taken by name; helper predicates summarised one to two levels deep.",
        "custom AST dataflow: must-facts / guard dominance + def-use cones (static analysis)",
        "DESIGN.md section 5, C17",
    ),
}
WALKER_NOTE = ("Python semantics as modelled by the syntax-directed walker (sa/flow.py); xdsl API names (rewriter.*, "
               "is_side_effect_free, InsertPoint, replace_all_uses_with) taken by name after import resolution; helper "
               "predicates summarised one to two levels deep; necessary conditions only.")
CLAIMED["C01"] = (
    "Static guard-dominance / effect-discipline / dependency rules on the five accfg-dedup patterns: a field is dropped "
    "only under equality with the state inferred from the op's own in_state; setups merge only across side-effect-free "
    "ops up to a same-accelerator setup, later values winning, earlier in_state kept; empty setups are elided only with "
    "an in_state; loop hoisting excludes every field defined in the loop or written with two values anywhere in the "
    "loop body; sinking into scf.if requires that no launch of the if's state lies between; accfg ops have no purity "
    "traits; plus the C07 soundness rules of the consumed state inference. Holds for every execution of the pass code; "
    "does not decide run-time register contents or confluence of the greedy driver. Round-3 clause (shared with C07): loop-head state from an exhaustive body scan. Round-5 clause (F-44 fixed): the position test over the setup's values is strict - a value at the position of the scf.if (its own result) does not pass.",
    WALKER_NOTE,
    "custom AST dataflow: must-facts / guard dominance, def-use cones, trait tables (static analysis)",
    "DESIGN.md section 5, C01",
)
CLAIMED["C07"] = (
    "Information-flow necessity on the accelerator-state dataflow: the loop-head state depends on the loop body and is "
    "guarded by `not has_accfg_effects(loop)`; the loop-result state is the meet of yielded and initial state; the if "
    "case intersects all regions with an equality filter; setup chaining is in_state-updated-by-own; has_accfg_effects "
    "flags func/llvm calls, honours the effects attribute with the right polarity and recurses over all nested ops; "
    "every branch of the weaving chain that an effecting op can take shrinks the tracked state on every path; setups are "
    "re-linked to state[their accelerator]. A transfer function that does not read what its soundness depends on cannot "
    "be sound: these are necessary conditions decided for all inputs, not the run-time state itself. Regions woven on their own drop the accelerators configured inside from the outer state (F-30, fixed); a setup is re-linked whenever its in_state differs from the recorded state, an unknown state included (F-31, fixed). Round-3 clauses: the loop-head state depends on an exhaustive scan of the body's setups (a must-state at the yield is not accepted); every own-state recursion into an op's regions drops the accelerators set up inside (may-scan); the state is cleared on entry to every further block / sibling region (C07.weave-regions, F-37 fixed). Round-4 clause: state_intersection in its two-argument or variadic form keeps a key only under equality on every side, a lookup defaulting to the compared value is rejected.",
    WALKER_NOTE,
    "custom AST dataflow: dependency cones (information-flow necessity), path/branch coverage of state-shrinking constructs (static analysis)",
    "DESIGN.md section 5, C07",
)
CLAIMED["C06"] = (
    "Static guard-dominance, effect-discipline, positional and must-pass-through rules on the two setup/compute "
    "overlap patterns and ScopedSetupWithInputs: block-level moves need exactly two users (this setup and a launch in "
    "the same block) and a resolved side-effect-free closure; ops only move upwards; the loop-level pattern needs the "
    "loop's own block argument as in_state and no launch user of the loop-carried state (nested ones included), "
    "substitutes (lb,*iter_args) / (iv+step,*yield operands) for (iv,*carried), redirects init operand 3+k and yield "
    "operand k, and erases the original only after both copies are in place on every path. Necessary conditions for all "
    "executions of the pass code; does not decide register contents at run time. A producer with regions joins the moved closure only if the values used inside its regions are followed (F-29, fixed); a generalisation of the two-users contract is accepted only with a positional choice of the launch. Round-3: the closure list may be filled by append or insert; the ordered-by-position clause is unchanged.",
    WALKER_NOTE,
    "custom AST dataflow: must-facts / guard dominance per path class, must-pass-through events, template matching of substitution tuples (static analysis)",
    "DESIGN.md section 5, C06",
)
CLAIMED["C03"] = (
    "Shape-agreement, guard-dominance and dependency rules on the elementary schedule transformations: every tile_dim "
    "call is dominated by divisibility of the very bound being tiled by the very tile size passed; rotate reorders "
    "bounds and matrix columns by one and the same partition of [0,N); tile_dim divides/inserts/multiplies by one factor "
    "at positions dim, dim+1 with the suffix shifted; add_dim inserts bound 1 in front; unit-dimension dropping uses one "
    "predicate for bounds and columns whose complement is bound == 1 (abstractly evaluated); the Schedule wrappers pass "
    "arguments unchanged to every pattern; the pass derives the schedule from this op's bounds and all its patterns on "
    "every path and emits schedule[0].bounds with one map per pattern. Does not decide AffineTransform.compose arithmetic. An un-rotated return of rotate is accepted only where the rotation is the identity. Round-3 clauses: AccessPattern.canonicalize only selects columns (no column rewritten, bias unchanged); get_static_pattern_bounds returns bounds in dimension order (C03.initial-bounds). Round-4: the keep-predicate of the unit-dimension drop is evaluated with Python's short-circuit semantics on None / 0 / 1 / 2 / 3 / large; selections by a mask computed from the same bounds are read as filters.",
    WALKER_NOTE,
    "custom AST analysis: symbolic index-segment comparison, must-facts, per-path-class definitions (static analysis)",
    "DESIGN.md section 5, C03",
)
CLAIMED["C16"] = (
    "Must-pass-through rules on scheduler_backtrack: a candidate reaches the recursive call only after template.matches "
    "and all extra checks held on the current rotation and, per path class, the template dimension is unbounded, the "
    "schedule bound is <= the template bound, or the candidate was tiled by exactly the (dividing) template bound; a "
    "schedule is yielded only after all dims were handled; Template.matches rejects arity mismatches and needs every pair; "
    "TemplatePattern.matches never drops result rows of the schedule operand; the memory-granularity test pairs its two "
    "conditions per operand dimension; the pass and scheduler() request exactly these constraints. Does not decide the "
    "SVD subspace comparison or the numeric predicates' arithmetic. Spatial unrolling requires coefficient 1 on a spatial column. Round-3 clause: the temporal-granularity test covers all temporal columns. Round-5 rules: tile_dim inserts a dimension on every path (C16.tile-inserts); no function of the matcher / scheduler hands out a remembered result under a key that does not determine it (C16.no-stale-verdicts).",
    WALKER_NOTE,
    "custom AST dataflow: must-facts per path class (path enumeration over alternatives), structural pairing test (static analysis)",
    "DESIGN.md section 5, C16",
)
CLAIMED["C10"] = (
    "Printer/parser agreement and structural rules on the views of a tiled-strided layout: every constructor field is "
    "printed and parsed; every field printable as `?` goes through the int-or-question production; `[bounds] -> (steps)` "
    "pairing and order agree on both sides and arity is enforced; get_affine_map extracts digit k of dimension d as "
    "(d mod prod(bounds[k:])) floordiv prod(bounds[k+1:]) scaled by step (d,k) for all levels; from_stride chains "
    "step*bound; canonicalize merges only under inner.step*inner.bound == outer.step, drops only unit bounds and keeps "
    "the innermost level; the common contiguous block only takes strides equal in both layouts that continue the running "
    "extent; bound/step op builders cover every (dim, depth). Decides these clauses, not numeric agreement of the views "
    "on all layouts (arithmetic). Subview lowering pairs the k-th dynamic offset with the dimension of the k-th DYNAMIC entry and forms (offset div inner tile size) * outermost step * element bytes. Round-3 clauses: largest_common_contiguous_block returns only the built block; is_dense answers True only without self-overlap or against the number of index tuples (C10.dense-injective). Round-4 clauses (F-41 fixed): every non-zero static subview offset contributes a term for its own dimension and the op is replaced by the running pointer, not by the last op created. Round-5 rule: get_affine_map evaluated over symbolic bounds and steps equals the closed form for every tiling profile of 1-2 dimensions with 1-4 levels (C10.affine-eval, the evaluation of C02.tsl-affine); when the clause-by-clause rule cannot read a restructured source the evaluation alone decides.",
    WALKER_NOTE,
    "custom AST analysis: sibling (printer/parser) table agreement, slot templates on expanded expressions, must-facts (static analysis)",
    "DESIGN.md section 5, C10",
)
CLAIMED["C11"] = (
    "Dependency, typestate and table rules on allocation: the snax.alloc size depends on all (dim,depth) bounds times "
    "their byte steps, the rounded-up element size and offset*element size with no unguarded floor division; StaticAllocs "
    "initialises, rounds up, checks `emitted + size <= start + capacity` on the very address emitted, stores the bump "
    "pointer and only then emits, on every path (must-pass-through events + must-facts killed on re-assignment); static "
    "allocators refuse dynamic sizes / missing memory spaces; MiniMallocate extends lifetimes by all uses of the buffer "
    "and transitively of its casts/views, lifted to top-level ops, hands out offset+start within capacity per memory "
    "space; the descriptor is filled at [0],[1],[2],[3,i]. The external minimalloc solver is trusted. Dynamic size operands are consumed front to back exactly for the DYNAMIC shape entries. Round-4 clause: every result of an unrealized conversion cast of the buffer is followed, whatever its type (cast-results).",
    WALKER_NOTE + " minimalloc (external solver, absent from the sandbox) is trusted to return non-overlapping offsets for overlapping lifetimes.",
    "custom AST dataflow: dependency cones, must-pass-through events, must-facts with kill-on-store (typestate) (static analysis)",
    "DESIGN.md section 5, C11",
)
CLAIMED["C13"] = (
    "Claimed for the all-cores-execute-every-barrier clause and the structural clauses of barrier insertion: the "
    "may-return-True type sets of dispatch_to_dm/compute contain only copy / linalg.generic / streaming-region kinds "
    "(never the barrier, calls or terminators) and the dispatcher wraps only ops for which the rule held; the two "
    "dependency directions of InsertSyncBarrier are alpha-equivalent with the right polarity and an unconditional loop "
    "back-edge clause; found/inserted barriers reset the pending list, insertion is before the pending op; no rewrite "
    "erases a ClusterSyncOp and its only lowering is the hardware-barrier call; in all 16 flag valuations of the pipeline "
    "the last InsertSyncBarrier is followed by DispatchRegions with no op-moving pass in between and SNAXToFunc later. "
    "NOT decided: that every execution path between two dependent ops of a given program contains a barrier (needs "
    "per-program exploration); the nested-loop back-edge gap is a listed known finding (F-23). A dependency pair may be skipped before the dispatch tests only under a condition that establishes, on every true path of the helper, that neither op writes the shared value. Round-3 rule: a dealloc user of any walked op's value becomes pending whatever core the op is bound to (C13.dealloc); C13.symmetric is decided from dominating facts when the two directions are not two syntactic blocks. Round-4 rule: the users of every operand and every result of every walked op are examined, no op kind contributes only some of its values (C13.every-value).",
    WALKER_NOTE + " Pass classes are identified by name; the list of op-moving passes is frozen in rules/c13.py.",
    "isinstance type-set analysis, sibling alpha-equivalence, who-may-erase scan, abstract execution of the pipeline builder over all flag valuations (static analysis)",
    "DESIGN.md section 5, C13",
)
CLAIMED["C14"] = (
    "Static rules on DispatchRegions: both guards compare one and the same snax_cluster_core_idx call by `eq` with "
    "nb_cores-1 (dm rule) resp. 0 (compute rule), pinned to range(nb_cores); ops are collected only under the rule, "
    "groups need a common parent, are moved in order into one scf.if placed at the first op, and the list is reset only "
    "after the move (must-pass-through); terminators are never dispatchable so every group is flushed; the dispatcher "
    "is evaluated eagerly for every block of every function with a body; no concrete op kind is in both type sets; "
    "dispatching precedes all lowerings of dispatchable ops in every pipeline. Decides these clauses for every "
    "execution of the pass code, not per-core traces of a particular program. Round-4 rule: both dispatch rules recognise an xDMA region by the type of the accelerator the context returns, never by the registered name (C14.xdma-by-type). Round-5 rules: every path through an iteration of the dispatcher walk that starts with ops pending collects the op or flushes the group (C14.no-skip, path enumeration plus propositional satisfiability over the branch conditions); a table of extension kernels is keyed distinctly for all extensions of XDMA_EXT_SET (C14.all-extensions, evaluated on the classes' literal supported_kernel). Round-6: caches in the dispatch-rule module are audited for keys that do not determine the verdict (C14.all-extensions).",
    WALKER_NOTE,
    "custom AST dataflow: dependency templates, must-pass-through events, lazy-evaluation (short-circuit) detection, pipeline typestate (static analysis)",
    "DESIGN.md section 5, C14",
)
CLAIMED["C15"] = (
    "Claimed for the counting-agreement, barrier, index-shift, parity-precondition and stage-shape clauses: prologue and "
    "epilogue lengths, lower-bound shift and index-clone count all equal nb_stages-1 with the inner stage ranges and "
    "index expressions (i, ub-(i+1), index-k) as required; every prologue/epilogue group and the steady-state body end "
    "with a barrier; double buffering selects by index mod 2 between the alloc and its clone only for one writer stage "
    "directly followed by one reader stage, the single-buffer shortcut only for read-only/write-only buffers; stages are "
    ">= 2 barrier-closed groups with block arguments ordered inputs-then-outputs; only lb 0 / step 1 loops without nested "
    "loops are pipelined. NOT decided: conflict freedom under all interleavings. The missing trip-count guard is a listed "
    "known finding (F-16). Round-4 clause: every exit of rewrite_operand has recorded the buffer in the list of its role (every-occurrence-recorded).",
    WALKER_NOTE,
    "custom AST analysis: counting-expression agreement, must-facts, per-path-class index expressions (static analysis)",
    "DESIGN.md section 5, C15",
)
CLAIMED["C09"] = (
    "Injectivity by construction plus the untouched clause: AddCyclicMemoryLayout aborts before any mutation if an "
    "operand already carries a tiled-strided layout; every Stride starts at the running extent and the next update of "
    "the running extent multiplies it by the same bound (mixed-radix invariant); the only other updates add (..)%c >= 0 "
    "(sign analysis of ensure_access_granularity); unused dimensions get a unit bound at the running extent; a schedule "
    "bound becomes a tile bound only when it divides the remaining size; TiledStride.canonicalize merges only under "
    "inner.step*inner.bound == outer.step and drops only unit bounds. Does not decide `covers exactly the shape` for "
    "strided (coefficient > 1) accesses nor the granularity values themselves. After the schedule loops every dimension gets an outer stride for the size left uncovered, shape // product of its bounds (F-32, fixed). Round-5 clause: a schedule bound becomes a tile bound only if it divides what is LEFT of the dimension (size // bounds already placed).",
    WALKER_NOTE,
    "custom AST dataflow: must-facts per path class, statement-order (typestate) check on the running extent, sign/interval analysis of one helper (static analysis)",
    "DESIGN.md section 5, C09",
)
CLAIMED["C12"] = (
    "Claimed for placement / direction / classification / guard clauses: copy-in is source->buffer, found in the forward "
    "walk, inserted before the first use that has the cast value among its inputs, once; copy-out is buffer->source, found "
    "in the reverse walk, inserted after the last use that has it among its outputs (returns never), once; cast chains are "
    "followed through both cast kinds identically in both places; kernel operands outside L1 get an L1 cast of that very "
    "operand; only unset function memory spaces become L3 and returns are cast to the function type's space; compile-time "
    "re-layout only for None -> dense static TSL, bailing on None, never with terminator users, non-cast users of an "
    "alloc, other references to the global or several uses of the get_global under a subview. Does not decide the byte "
    "permutation of transform_constant nor write/read/write orders of several users (observations O-8/O-9). As built after round 2: a re-used L1 cast must be visible at the op (F-33, fixed); the copy-in goes in front of the FIRST use once some use reads the buffer (F-34, fixed; this supersedes 'before the first use that has the value among its inputs' above); a chain ending in its root's type is replaced by a value of that type (F-35, fixed); dynamic sizes of the realised buffer are memref.dim(source, i) for the DYNAMIC dimensions in order. Round-3 rule: transform_constant scatters (reshape to bounds + transpose into descending step order, or store through the address enumeration), never gathers through it (C12.const-permutation). Round-5/6 clauses (F-45, F-46 fixed): only a global whose type has no layout is re-laid-out at compile time; transform_constant refuses target layouts with a non-zero offset.",
    WALKER_NOTE,
    "custom AST dataflow: dependency templates, must-facts per path class, sibling loop agreement (static analysis)",
    "DESIGN.md section 5, C12",
)
CLAIMED["C18"] = (
    "Claimed for recognition / dispatch / table clauses and the dataflow shape of the rescale expansion: an accelerator is "
    "selected only for a kernel class it declares; the body-equivalence test rejects different lengths and compares every "
    "op of both bodies pairwise without filtering; ParseLinalgBody rewrites only after operand-count, Parsable and "
    "equivalence tests; every SupportedKernel lists #operands+#results types and every equivalent region declares that "
    "many arguments and yields one value; is_same_kernel compares class and types; on every path LowerRescale emits "
    "trunc(max(min(trunc(shr(mul(extsi(in-zp_in),mult),shift))+zp_out,max_int),min_int)) with each constant from its own "
    "attribute; only single-kernel bodies are expanded. NOT decided: equality of the scalar functions on all integer "
    "inputs. The dead operand-type test (F-13) and the wiring-blind equivalence test (F-14) are listed known findings. Round-4 rule: the op tested for the yield is the one right behind the kernel op, a test on the block's last op is vacuous (C18.single-kernel).",
    WALKER_NOTE,
    "contradiction/ineffective-check detection, read-set (information-flow) analysis, table agreement over the kernel dialect, expanded-expression templates per path class (static analysis)",
    "DESIGN.md section 5, C18",
)
CLAIMED["C19"] = (
    "Claimed for: print/parse agreement of StridePattern (keywords ub/ts/ss, order, field positions) and of "
    "StreamerConfigurationAttr (keywords opts/temp/spat, coverage of every constructor field); exhaustiveness and name "
    "uniqueness of the streamer-option registry; fold/drop conditions of StridePattern.canonicalize (fold only if last kept "
    "bound*stride equals the stride, drop only bound 1); the fixpoint test of canonicalize_expr (idempotence shape); a "
    "bounded identity test of every rewrite rule extracted from the four affine canonicalisers (each return, under the "
    "path conditions on the input, evaluated on a grid of model expressions); pairing and or-reduction shape of "
    "pack_bitlist. The identity test is bounded, not a proof; AffineTransform algebra and AccessPattern equivalence are "
    "not decided here (C03 covers the schedule transformations). The unprinted streamer system type is a listed known "
    "finding (F-15). AffineTransform.from_affine_map refuses floordiv/ceildiv/mod anywhere in a result (complete traversal). Round-3: the rewrite-identity grid contains split/recombine shapes ((a floordiv c) * k + b mod c') with structural equality of model expressions. Round-4 rules: AccessPattern.canonicalize selects bounds and columns by one predicate that rejects exactly bound 1 - dynamic and zero bounds are kept (C19.pattern-canon, F-42 fixed); inner_dims slices bounds and columns alike (C19.inner-dims); the model grid of the rewrite identities has a divisor sharing a factor with a multiplier. Round-5 rule: PatternCollection.canonicalize canonicalises every pattern by its own bounds (C19.collection-canon).",
    WALKER_NOTE + " Rewrite rules are extracted per return site with SSA-like tracking of the re-assigned parameter; helper predicates in path conditions are not assumed.",
    "printer/parser sibling agreement, registry tables, must-facts, bounded abstract evaluation of extracted rewrite rules (static analysis)",
    "DESIGN.md section 5, C19",
)
CLAIMED["C20"] = (
    "Claimed for the switch-count clause, value order and search completeness: by path enumeration over abstract "
    "switches (choose with 1/2/3 alternatives, mux) PEOp.get_true_switches adds exactly as many as decode_abstract_graph "
    "emits on every non-raising path; values are appended in the PE's get_switches() order to the very list that is "
    "returned and mux placeholders are replaced in place; every collected mux is handed to search_mapping, which tries "
    "both positions of every mux and returns only complete mappings accepted by valid_mapping; the accelerator sizes its "
    "switch fields by the former and fills them by the latter. NOT decided: that the decoded switch values make the "
    "merged PE compute the kernel, nor stability under merge histories (behavioural). Merging: a routing conflict at operand i gets its own new mux with a fresh switch (default on lhs), inserted before the consumer; new chooses get fresh switches; routing of existing chooses and of the terminator is uncollided. Round-3 clause: uncollide_inputs is called whenever the abstract counterpart exists (no further condition). Operations placed into choose regions take the block arguments by position, never through a value mapper keyed by their own operand values (C20.region-operands, F-39 fixed).",
    WALKER_NOTE,
    "abstract path enumeration over a finite switch domain, sibling count agreement, dependency templates (static analysis)",
    "DESIGN.md section 5, C20",
)
CLAIMED["C08"] = (
    "Shape agreement by a sequence-shape abstract interpreter, symbolic in the streamer configuration: for the regular and "
    "the xDMA layout the symbolic field list and the symbolic generated value list (per streamer: pointers, one value per "
    "spatial dim, per temporal dim twice, option-conditioned entries; then per-streamer transpose/broadcast/extension "
    "entries) have the same shape, data-dependent branches never change the number of values, and values of provenance "
    "bounds/strides/operands sit in the segments named bound/tstride/sstride/ptr; accelerator tails (gemmx K/N/M, packed "
    "registers, ceil(n/4) shifts, n multipliers; alu; phs; hwpe_mult) and launch values match the declared tuples, "
    "hard-wired lists after instantiating the default configuration; padding with 1/0 and the reuse collapse are guarded; "
    "extension CSR tables have csr_length entries; values named like fields sit at their field's position; per-tensor "
    "lists are replicated only under their own length test. Segments whose length depends on the operation (gemmx "
    "per-channel rescale lists) are reported as undecided, not as violations. Does not decide numeric contents. F-5 and F-7 "
    "are listed known findings. Four-per-register packing loops of the gemmx accelerator (setup path and per-channel launch path) place channel 4r+j at the same bit offset (abstract bit placement, sibling agreement). Round-3 rules: per-streamer locals are assigned in the iteration that reads them (C08.per-streamer-fresh, F-36 fixed); the bypass bit of an extension is its position among the extensions (C08.bypass-bit). Round-4 rule: the rescale whose parameters fill the gemmx registers is located from the region's yield or by a scan of the body, not at a fixed distance behind the matmul (C08.rescale-source). Round-5 rule: a per-operand flag collected over the spatial dimensions is only raised or or-ed inside that loop (C08.broadcast-any). Round-6 rules: a kernel loop count taken from a stride pattern is the product over all temporal bounds (C08.loop-count, F-47 fixed); gemmx packs the generic inputs at the argument indices of qmac.zp_lhs / zp_rhs as zero points of A / B (C08.zero-points).",
    "Python list-building semantics as modelled by sa/shape.py (append/extend/+/splat/comprehensions/loops/if-merging); option tests and length aliases normalised; the xDMA system type is tied to the xDMA accelerator class (frozen).",
    "sequence-shape abstract interpretation with symbolic domains and label provenance; must-facts for guards (static analysis)",
    "DESIGN.md section 5, C08",
)
CLAIMED["C04"] = (
    "Register maps: generate_acc_op of every concrete accelerator is abstractly interpreted, symbolically in the "
    "configuration (numbers of streamer fields, gemmx n, PHS switch count), into address segments whose first address and "
    "count are linear forms; every pair of segments (setup fields, launch registers, the two reserved streamer status "
    "registers, the barrier) is proved disjoint by interval arithmetic on the difference form, a pair that cannot be proved is "
    "searched for a concrete colliding configuration which is then reported; the address dictionaries name exactly the "
    "declared setup / launch fields; RoCC tables pair .rs1/.rs2 under one funct7. Lowering: in every CSR lowering the single, "
    "unconditional csrw per field takes the declaration's (launch_)field_items() entry of the loop's own field and the loop's "
    "own value, in order; keyed lowerings (gemmx per-channel launch) write each named value to the register declared under "
    "the same name; every polling await reads acc_op.barrier; the pass lowers setup, launch and await through the op's own "
    "accelerator before declarations and states are erased; DeleteAllStates is untyped and filters operands, results and the "
    "block arguments of every block of every region; create_pairs fills a missing partner from infer_state_of(this op's "
    "in_state) under the same key and only if unset, defaults are materialised for a first setup, operand order is (rs1, rs2); "
    "memoised objects are never mutated. Does not decide run-time register contents (depends on C07) nor address conventions "
    "of the hardware that the code does not state. Surviving results of DeleteAllStates are mapped front to back. A factory registered with AccContext.register_accelerator inside a loop binds its accelerator when it is created (C04.registry-binding, F-38 fixed). Round-4 clause: in a lowering that launches once per channel group, a write whose value is selected by the group loop's variable is unconditional in that loop (every-group).",
    "Configuration symbols are non-negative integers; xDMA has two streamers (asserted in its __init__) hence at least four "
    "pointer fields; max_multicast_dest is the class constant; the two reserved registers behind the streamer launch CSR are a "
    "hardware constant frozen in the rule table with the code comment as its reason.",
    "abstract interpretation of register-map builders to linear forms + interval reasoning with witness enumeration; dependency cones and must-facts on lowering functions (static analysis)",
    "DESIGN.md section 5, C04",
)
CLAIMED["C05"] = (
    "Structural clauses only. Call sites and inserted external declarations of snax_dma_1d/2d_transfer agree in arity with the C "
    "prototypes read from runtime/include/snax_rt.h; no source-named variable, keyword or runtime parameter is bound to a purely "
    "destination-derived value (and vice versa; 38 bindings); for every pair of variables differing only in the role token the "
    "destination-side definitions are the role-swapped images of the source-side ones, per path alternative, with shape spellings "
    "identified under the established shape equality; every pointer increment, DMA size and DMA stride depends on the element byte "
    "size; the strided lowering is reached only with equal shapes and element types and the 1-D lowering only for two plain memrefs; "
    "the loop-nest builder, evaluated abstractly for 0..5 remaining strides over opaque tokens, realises every remaining stride exactly "
    "once with its own bound, its own source step and its own destination step (as the 2-D repeat dimension or as one loop) and places "
    "pointer arithmetic before its uses; the stride that seeds dynamic steps in get_step_ops is selected from steps and bounds (F-25, "
    "fixed); the common-contiguous-block search ends at a dynamic stride (violated on the tree: listed known finding F-28, specified by an "
    "upstream sample). Does not decide the arithmetic of largest_common_contiguous_block, of dynamic steps beyond the seed choice, nor byte-level "
    "footprints. Every layout reconstructed by from_strides takes strides and offset from the same memref type. Round-3 clauses: a run-time metadata stride is stored only for the innermost tile level of its dimension (C05.metadata-stride); largest_common_contiguous_block returns only the block built stride by stride (C05.lccb-built).",
    "Identifier tokens src/source and dst/dest/destination carry the role (the file's own convention, 38 bindings checked); the "
    "abstract evaluation is bounded to at most 5 remaining strides; models of ForOp/Block/Region/CallOp/MuliOp/AddiOp are the "
    "checker's (structure only).",
    "prototype/arity table agreement, role lint and mirror comparison with flow-sensitive expansion, dependency cones, must-facts, bounded abstract evaluation of builder code over opaque tokens (static analysis)",
    "DESIGN.md section 5, C05",
)
CLAIMED["C02"] = (
    "Structural clauses only; the stride arithmetic of convert-dart-to-snax-stream (bank-width packing, spatial fill-up, dimension "
    "merging) and of the accelerators' pattern customisation is NOT decided. Decided: (offset) strides are responses of the composed "
    "affine map minus its response at the origin, that response reaches the operand base pointers, and the tiled-strided layout map "
    "includes the layout offset (F-26, F-27, fixed); (operand) per-operand sequences - operands, schedule patterns, access patterns, "
    "template patterns, streamers - are indexed by the loop's own operand index, one result per operand in order, and stride, bound and "
    "relevance of a dimension are read with one index; (relevance) relevant spatial dimensions are decided from the template pattern of "
    "that operand and every temporal dimension is relevant; (routing) by bounded abstract evaluation of get_streamers / "
    "set_stride_patterns over opaque pattern and pointer tokens, for every case the hooks distinguish (gemmx: 2/3/4 operands x i8/i32 "
    "results, xDMA add extension, identity defaults): position h of the pattern list and of inputs+outputs carries the pattern and the "
    "pointer of the operand scheduled for hardware streamer h, and the new op uses exactly what the hook returns; (tsl-affine) by abstract "
    "evaluation with symbolic bounds and steps over the repo's own TSL classes, for every tiling profile of 1-2 dimensions x 1-4 levels: "
    "the layout map equals offset + sum step*((d mod prod(bounds[depth:])) div prod(bounds[depth+1:])). Also: the pointer is moved, at the place where it is moved, by the origin response of the composed map (not of the layout alone), and StridePattern.canonicalize (applied to every emitted pattern) folds only contiguous dimensions (rule shared with C19). Round-3 clause: get_streamers returns this accelerator's own streamers (a distinct module default is modelled). Round-4 clause: strides and the base-pointer shift are both in bytes (byte map, or element map times the element size). Round-5 rule: a table that LayoutResolution fills in a loop and consults to skip work is keyed by every loop variable the stored value depends on (C02.dedupe-key); the closed-form comparison of the layout map reads divide-then-mod terms.",
    "Abstract evaluation is bounded (5 hardware streamers from the module's default configuration, <= 4 tile levels, <= 2 dimensions); "
    "models of StridePattern / StreamType / AffineDimExpr are the checker's own (structure only); on a streamer shared by several operands "
    "the first scheduled operand owns pattern and pointer (the add extension's fixed 512-byte second-input stride is taken as given).",
    "dependency cones, index-agreement lint, bounded abstract evaluation of routing hooks over opaque tokens and of the layout map over symbolic monomials (static analysis)",
    "DESIGN.md section 5, C02",
)
# clauses added in round 7 (DESIGN.md section 10.15), appended to the level texts above
ROUND7_ALL = (" Round-7 clause (all properties): in every analysed function a table that hands an earlier result to a later loop iteration or call is keyed by "
              "everything the result was computed from (Cxx.cache-keys; consistency checks that only compare a hit are left alone).")
ROUND7 = {
    "C04": " Round-7 clause: state is traced for the lowering only while no setup has been erased - the RoCC operand pairs are completed in a walker that runs before the reverse lowering walker (F-56, fixed); lowering patterns run before the walker that erases declarations.",
    "C06": " Round-7 clause: the loop-level pattern changes the state a loop yields only if the loop's state result is unused or the state is restored behind the loop (F-49, known finding).",
    "C07": " Round-7 clause: re-weaving a loop sets the yield operand of every state block argument, created or already there, to the end-of-body state (F-50, fixed).",
    "C08": " Round-7 clauses: the op verifier measures the stride pattern as written, the object the value generator indexes per hardware dimension; a kernel loop count is read through pattern methods and a product over a filtered subset of the bounds is rejected.",
    "C10": " Round-7 clause: every verdict of self_overlaps is computed from all_values(); a closed-form overlap test is an analysis error (fails closed), never a pass.",
    "C12": " Round-7 clauses: a constant / global / alloc is re-typed only if every user is a cast (F-48, fixed); a chain of casts is followed only through casts whose sole user is the next cast (F-52, fixed); the layout built for a re-laid-out global keeps the offset of the target layout the rebuilt subview is typed with; the read/write classification of a use may live in a module helper and is judged on its return sites.",
    "C11": " Round-7 clause: lifetimes follow every view-like op of the memref dialect (subview, the casts, expand_shape, collapse_shape) and snax.layout_cast (F-55, fixed); the solver's offsets count from memory.start rounded up to the buffers' alignment (F-59, fixed).",
    "C13": " Round-7 clause: a barrier (inserted or found) takes from the pending list only the ops of its own block, never all of them (F-53, fixed); the users examined for an op include those of every value standing for the same buffer (view closure; F-54, fixed).",
    "C14": " Round-7 clauses: the move loop may drain the pending list from the front (pop(0)), draining from the back reverses the group; every SupportedKernel is built with a re-iterable sequence (no one-shot iterator); dispatch_to_compute declines an xDMA region only if some extension provides its kernel (F-51, fixed).",
    "C15": " Round-7 clause: ConstructPipeline redirects no value to a result of the index op it builds (the 'defined by the index op => safe' shortcut of PipelineDuplicateBuffers has that pass as its only producer).",
    "C17": " Round-7 clauses: the new trip count is computed in integer arithmetic (no float quotient); MergeForLoops mutates only with both upper bounds non-negative (F-57, fixed).",
    "C03": " Round-7 clause: the rotated form of SchedulePattern.rotate is built only for dim >= 1 (F-58, fixed).",
    "C18": " Round-7 clause: an order-free comparison of the two bodies (multisets / sorted lists of op types) is rejected.",
    "C19": " Round-7 clause: AffineTransform.compose builds (self.A @ other.A, self.A @ other.b + self.b); a shortcut returning one operand unchanged reads the matrix AND the translation of the operand it drops.",
    "C20": " Round-7 clause: valid_mapping pairs operands by position (strict zip) and rejects a position whenever its source differs from the followed abstract operand (no per-position membership test).",
}
# clauses added in round 8 (DESIGN.md section 10.16)
ROUND8 = {
    "C03": " Round-8 clause: from_affine_map refuses every map with a floordiv / ceildiv / mod anywhere in a result (the rule of C19, shared).",
    "C04": " Round-8 clauses: an operand that cannot be traced is refused, never defaulted; max(x // k, c) in a register map is evaluated exactly over the enumerated configurations, and a segment pair that is neither proved disjoint nor could be tried is an analysis error.",
    "C08": " Round-8 clause: gemmx M counts the output pattern's bounds with a non-zero temporal stride in that same pattern (not streamer flags).",
    "C10": " Round-8 clause: get_affine_map takes its constant term from self.data.offset only where it is known (no default for a dynamic offset).",
    "C11": " Round-8 clause: every use of a buffer is recorded, whatever the kind of the using op (terminators included).",
    "C12": " Round-8 clauses: users that are no kernels count as readers / writers (func.return excepted for writing); the users of views of the cast value count as users of the buffer (F-60, known finding).",
    "C13": " Round-8 clause: the view closure descends transitively (views of views).",
    "C14": " Round-8 clause: both dispatch rules ask the extensions about the same kernel op of a region.",
    "C16": " Round-8 clauses: a loop is parallel iff some entry of its output column is non-zero (no column sums); a row slice of the template matrix starts at a count known to be non-negative on every path class.",
}
for _pid in list(CLAIMED):
    _t, _n, _tech, _ref = CLAIMED[_pid]
    CLAIMED[_pid] = (_t + ROUND7.get(_pid, "") + ROUND8.get(_pid, "") + ROUND7_ALL, _n, _tech, _ref)

NOT_APPLICABLE = {
}
NOT_BUILT = "check under construction in this session (designed in DESIGN.md section 5); not claimed until its rules run silently on the unchanged tree"

props = [json.loads(l)["id"] for l in (VERIF / "properties.jsonl").read_text().splitlines() if l.strip()]
checks = []
for pid in props:
    if pid in CLAIMED:
        text, note, tech, ref = CLAIMED[pid]
        checks.append({
            "property_id": pid,
            "quick_cmd": f"./verify {pid} --tier quick",
            "thorough_cmd": f"./verify {pid} --tier thorough",
            "evidence_file": f"evidence/{pid}.json",
            "replay_cmd_template": f"./verify {pid} --replay {{path}}",
            "engine": "sa",
            "level_claimed": {"category": "other", "text": text, "design_ref": ref},
            "level_note": note,
            "technique": tech,
        })
na = [{"property_id": p, "reason": NOT_APPLICABLE.get(p, NOT_BUILT)} for p in props if p not in CLAIMED]
manifest = {
    "version": 1,
    "setup_cmd": "python3 -m compileall -q sa rules >/dev/null && echo setup-ok",
    "hooks": {
        "guard": "SNAX_MLIR_VERIF",
        "enable": "none needed: the checks read /repo's source with ast.parse and never import or run it; no hook exists in /repo",
        "baseline_off_cmd": "cd /repo && /venv/bin/python -m pytest -ra -q -p no:cacheprovider --timeout=900 --continue-on-collection-errors",
        "source_commits": [],
        "add_only": True,
    },
    "engines": [{
        "name": "sa", "path": "sa/", "serves_properties": sorted(CLAIMED),
        "kind_free_text": "repository-specific static analyser on Python ast: source model with MRO, syntax-directed must-fact/"
                          "environment walker with path alternatives, def-use cones with helper inlining, sequence-shape "
                          "abstract interpreter, isinstance type-set analysis; rules in rules/cXX.py",
    }],
    "checks": checks,
    "not_applicable": na,
    "notes": "Technique family: static analysis only. Exit 0 holds / 1 VIOLATION / 2 ANALYSIS-ERROR (anchor vanished or floor not reached). "
             "Known findings: known_findings.json. Seeded changes: seeded/. See DESIGN.md.",
}
(VERIF / "MANIFEST.json").write_text(json.dumps(manifest, indent=1) + "\n")
print("claimed:", sorted(CLAIMED), "n/a:", len(na))

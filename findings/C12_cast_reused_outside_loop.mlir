// F-33: snax-opt -p set-memory-space
// The first user of %arg0 is inside the loop, so its L1 cast is created there; the generic behind the loop re-used that cast
// (found among the uses of %arg0) although a value defined in the loop body is not visible after the loop.
func.func public @two_users(%arg0 : memref<64xi32>, %arg1 : memref<64xi32>, %arg2 : memref<64xi32>, %lb : index, %ub : index, %st : index) {
  scf.for %i = %lb to %ub step %st {
    linalg.generic {indexing_maps = [affine_map<(d0) -> (d0)>, affine_map<(d0) -> (d0)>], iterator_types = ["parallel"]} ins(%arg0 : memref<64xi32>) outs(%arg1 : memref<64xi32>) {
    ^bb0(%a : i32, %b : i32):
      linalg.yield %a : i32
    }
  }
  linalg.generic {indexing_maps = [affine_map<(d0) -> (d0)>, affine_map<(d0) -> (d0)>], iterator_types = ["parallel"]} ins(%arg0 : memref<64xi32>) outs(%arg2 : memref<64xi32>) {
  ^bb0(%a : i32, %b : i32):
    linalg.yield %a : i32
  }
  func.return
}

// accfg-dedup clones %s10 into both branches of the scf.if although its operand %1#1 is a RESULT of that
// very scf.if: inside the branches the value does not exist yet (the output uses it before its definition).
func.func @f(%a0 : i32, %a1 : i32, %a2 : i32, %c2 : i1) {
  %s1 = accfg.setup "acc1" to ("A" = %a0 : i32, "B" = %a0 : i32, "C" = %a0 : i32) : !accfg.state<"acc1">
  %t2 = "accfg.launch"(%s1) <{param_names = [], accelerator = "acc1"}> : (!accfg.state<"acc1">) -> !accfg.token<"acc1">
  "accfg.await"(%t2) : (!accfg.token<"acc1">) -> ()
  %1, %v = scf.if %c2 -> (!accfg.state<"acc1">, i32) {
    %s3 = accfg.setup "acc1" from %s1 to ("A" = %a1 : i32, "B" = %a2 : i32, "C" = %a2 : i32) : !accfg.state<"acc1">
    %t4 = "accfg.launch"(%s3) <{param_names = [], accelerator = "acc1"}> : (!accfg.state<"acc1">) -> !accfg.token<"acc1">
    "accfg.await"(%t4) : (!accfg.token<"acc1">) -> ()
    scf.yield %s3, %a1 : !accfg.state<"acc1">, i32
  } else {
    %s5 = accfg.setup "acc1" from %s1 to ("A" = %a2 : i32, "B" = %a1 : i32, "C" = %a2 : i32) : !accfg.state<"acc1">
    %t6 = "accfg.launch"(%s5) <{param_names = [], accelerator = "acc1"}> : (!accfg.state<"acc1">) -> !accfg.token<"acc1">
    "accfg.await"(%t6) : (!accfg.token<"acc1">) -> ()
    scf.yield %s5, %a2 : !accfg.state<"acc1">, i32
  }
  %s10 = accfg.setup "acc1" from %1 to ("A" = %v : i32, "B" = %a2 : i32, "C" = %a1 : i32) : !accfg.state<"acc1">
  %t11 = "accfg.launch"(%s10) <{param_names = [], accelerator = "acc1"}> : (!accfg.state<"acc1">) -> !accfg.token<"acc1">
  "accfg.await"(%t11) : (!accfg.token<"acc1">) -> ()
  func.return
}

builtin.module {
  // A is produced and flattened at top level; B is allocated afterwards; the flattened view of A and B are used together.
  func.func public @flattened_at_top_level() {
    %a = memref.alloc() {alignment = 64 : i64} : memref<8x8xi8, "L1">
    "test.op"(%a) : (memref<8x8xi8, "L1">) -> ()
    %flat = memref.collapse_shape %a [[0 : i64, 1 : i64]] : memref<8x8xi8, "L1"> into memref<64xi8, "L1">
    %b = memref.alloc() {alignment = 64 : i64} : memref<64xi8, "L1">
    "test.op"(%flat, %b) : (memref<64xi8, "L1">, memref<64xi8, "L1">) -> ()
    func.return
  }
}

#!/usr/bin/env python
"""
C11 demo (variant a): buffers that are live at the same time must get disjoint address ranges.

usage: demo.py <runnable repo root>

input.mlir holds two functions of the same shape: buffer A is produced, buffer B is allocated, and then
a loop reads A (through a flattened view created inside the loop in the first function, through its base
pointer in the second) while it writes B. A and B are therefore live at the same time inside the loop.

The input is lowered with `memref-to-snax,canonicalize,snax-allocate{mode=minimalloc}` (the order of the
compiler pipeline). The solver package is absent in this environment; stubs/minimalloc.py is a
deterministic first-fit stand-in that never lets buffers with intersecting lifetimes share an address.

Exit 0 if in every function the address ranges of A and B are disjoint, aligned and inside L1; 1 otherwise.
"""

import pathlib
import sys

here = pathlib.Path(__file__).resolve().parent
root = pathlib.Path(sys.argv[1]).resolve()
sys.path.insert(0, str(here / "stubs"))
sys.path.insert(0, str(root))

from xdsl.dialects import arith, func, llvm  # noqa: E402
from xdsl.parser import Parser  # noqa: E402
from xdsl.transforms.canonicalize import CanonicalizePass  # noqa: E402

from snaxc.dialects import snax  # noqa: E402
from snaxc.tools.snax_opt_main import SNAXOptMain  # noqa: E402
from snaxc.transforms.memref_to_snax import MemrefToSNAX  # noqa: E402
from snaxc.transforms.snax_allocate import SnaxAllocatePass  # noqa: E402
from snaxc.util.snax_memory import L1  # noqa: E402

input_file = here / "input.mlir"
ctx = SNAXOptMain(args=[str(input_file)]).ctx
module = Parser(ctx, input_file.read_text(), str(input_file)).parse_module()
module.verify()

MemrefToSNAX().apply(ctx, module)
CanonicalizePass().apply(ctx, module)
module.verify()


def const_of(value) -> int:
    assert isinstance(value.owner, arith.ConstantOp), value.owner
    return value.owner.value.value.data


functions = [op for op in module.walk() if isinstance(op, func.FuncOp) and not op.is_declaration]

# sizes and alignments requested by the snax.alloc ops, in program order
requested: dict[str, list[tuple[int, int]]] = {}
for f in functions:
    requested[f.sym_name.data] = [
        (const_of(op.size), op.alignment.value.data) for op in f.walk() if isinstance(op, snax.Alloc)
    ]

SnaxAllocatePass(mode="minimalloc").apply(ctx, module)
module.verify()

failures: list[str] = []
for f in functions:
    name = f.sym_name.data
    addresses = [const_of(op.input) for op in f.walk() if isinstance(op, llvm.IntToPtrOp)]
    sizes = requested[name]
    if len(addresses) != len(sizes) or len(sizes) != 2:
        failures.append(f"@{name}: expected 2 allocated buffers, found {len(addresses)} addresses for {len(sizes)} allocs")
        continue
    (addr_a, addr_b), ((size_a, align_a), (size_b, align_b)) = addresses, sizes
    print(f"@{name}: A = [{addr_a:#x}, {addr_a + size_a:#x})  B = [{addr_b:#x}, {addr_b + size_b:#x})")
    for label, addr, size, align in (("A", addr_a, size_a, align_a), ("B", addr_b, size_b, align_b)):
        if addr % align:
            failures.append(f"@{name}: buffer {label} at {addr:#x} is not aligned to {align}")
        if addr < L1.start or addr + size > L1.start + L1.capacity:
            failures.append(f"@{name}: buffer {label} [{addr:#x}, {addr + size:#x}) is outside of L1")
    if addr_a < addr_b + size_b and addr_b < addr_a + size_a:
        failures.append(
            f"@{name}: A is still read inside the loop that writes B, expected disjoint address ranges, "
            f"observed A = [{addr_a:#x}, {addr_a + size_a:#x}) and B = [{addr_b:#x}, {addr_b + size_b:#x}) overlap"
        )

if failures:
    print("C11 VIOLATED:")
    for failure in failures:
        print("  " + failure)
    sys.exit(1)
print("C11 holds on the observed allocations")
sys.exit(0)

#!/usr/bin/env python
"""
C11 demo (variant b): statically allocated buffers must be aligned as requested, lie inside the address
window [start, start + capacity) of their memory and be pairwise disjoint.

usage: demo.py <runnable repo root>

Both inputs are lowered with `memref-to-snax,canonicalize,snax-allocate{mode=static}`:
 * input.mlir (alignment 64) with a cluster memory description, built with SnaxMemory.from_config the way
   snaxc's config parser does it, whose window starts 0x20 bytes after 0x10000000;
 * input_bank.mlir (snax.alloc ops with alignment 48, i.e. three 16-byte banks, in the style of the
   snax-allocate-static.mlir sample) with the stock L1 description of snax-opt.

snax_allocate.py imports the `minimalloc` solver package, which is absent in this environment (static mode
never calls it); stubs/minimalloc.py only makes the import succeed.

Exit 0 if all observed addresses satisfy the property, 1 otherwise.
"""

import pathlib
import sys

here = pathlib.Path(__file__).resolve().parent
root = pathlib.Path(sys.argv[1]).resolve()
sys.path.insert(0, str(here / "stubs"))
sys.path.insert(0, str(root))

from xdsl.dialects import arith, llvm  # noqa: E402
from xdsl.parser import Parser  # noqa: E402
from xdsl.transforms.canonicalize import CanonicalizePass  # noqa: E402

from snaxc.dialects import snax  # noqa: E402
from snaxc.tools.configs import SnaxMemoryConfig  # noqa: E402
from snaxc.tools.snax_opt_main import SNAXOptMain  # noqa: E402
from snaxc.transforms.memref_to_snax import MemrefToSNAX  # noqa: E402
from snaxc.transforms.snax_allocate import SnaxAllocatePass  # noqa: E402
from snaxc.util.snax_memory import L1, SnaxMemory  # noqa: E402


def const_of(value) -> int:
    assert isinstance(value.owner, arith.ConstantOp), value.owner
    return value.owner.value.value.data


def check(input_name: str, memory: SnaxMemory) -> list[str]:
    input_file = here / input_name
    ctx = SNAXOptMain(args=[str(input_file)]).ctx
    ctx.register_memory(memory)
    module = Parser(ctx, input_file.read_text(), str(input_file)).parse_module()
    module.verify()
    MemrefToSNAX().apply(ctx, module)
    CanonicalizePass().apply(ctx, module)
    requested = [(const_of(op.size), op.alignment.value.data) for op in module.walk() if isinstance(op, snax.Alloc)]
    SnaxAllocatePass(mode="minimalloc").apply(ctx, module)
    module.verify()
    addresses = [const_of(op.input) for op in module.walk() if isinstance(op, llvm.IntToPtrOp)]

    window = f"[{memory.start:#x}, {memory.start + memory.capacity:#x})"
    print(f"{input_name}: memory {memory.attribute.data} {window}")
    failures: list[str] = []
    if not requested or len(requested) != len(addresses):
        return [f"{input_name}: {len(requested)} allocations but {len(addresses)} addresses"]
    ranges: list[tuple[int, int]] = []
    for i, (address, (size, alignment)) in enumerate(zip(addresses, requested)):
        print(f"  buffer {i}: [{address:#x}, {address + size:#x}) size {size} alignment {alignment}")
        if address % alignment:
            failures.append(
                f"{input_name}: buffer {i} expected at a multiple of {alignment}, observed {address:#x} "
                f"(= {address % alignment} mod {alignment})"
            )
        if address < memory.start or address + size > memory.start + memory.capacity:
            failures.append(f"{input_name}: buffer {i} [{address:#x}, {address + size:#x}) is outside of {window}")
        for j, (lo, hi) in enumerate(ranges):
            if address < hi and lo < address + size:
                failures.append(f"{input_name}: buffers {j} and {i} overlap")
        ranges.append((address, address + size))
    return failures


cluster_memory = SnaxMemory.from_config(SnaxMemoryConfig(name="L1", start=0x1000_0020, size=0x1_0000 - 0x20))

failures = check("input.mlir", cluster_memory)
if failures:
    print("C11 VIOLATED:")
    for failure in failures:
        print("  " + failure)
    sys.exit(1)
print("C11 holds on the observed allocations")
sys.exit(0)

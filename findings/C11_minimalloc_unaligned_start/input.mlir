builtin.module {
  func.func public @buffers() {
    %a = memref.alloc() {alignment = 64 : i64} : memref<10x10xi8, "L1">
    %b = memref.alloc() {alignment = 64 : i64} : memref<16x16xi32, "L1">
    %c = memref.alloc() {alignment = 64 : i64} : memref<8x8xi32, #tsl.tsl<[2, 4] -> (16, 4), [2, 4] -> (128, 32)>, "L1">
    "test.op"(%a, %b, %c) : (memref<10x10xi8, "L1">, memref<16x16xi32, "L1">, memref<8x8xi32, #tsl.tsl<[2, 4] -> (16, 4), [2, 4] -> (128, 32)>, "L1">) -> ()
    func.return
  }
}

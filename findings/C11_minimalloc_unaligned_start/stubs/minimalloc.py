"""
Minimal stand-in for the `minimalloc` solver package (absent in this environment), exposing the
interface snaxc/transforms/snax_allocate.py uses: Buffer(id, start_time, end_time, size, alignment)
and Problem(buffers, capacity).solve() -> list of offsets (one per buffer, in order).

The solver is a deterministic first fit: buffers are placed in order of start time at the lowest
aligned offset that does not collide with an already placed buffer whose (inclusive) lifetime
intersects. Two buffers whose lifetimes intersect therefore never share an address; buffers with
disjoint lifetimes share addresses whenever possible (as the real solver's minimal packing does).
"""


class Buffer:
    def __init__(self, id: str, start_time: int, end_time: int, size: int, alignment: int = 1):
        self.id = id
        self.start_time = start_time
        self.end_time = end_time
        self.size = size
        self.alignment = alignment


class Problem:
    def __init__(self, buffers: list[Buffer], capacity: int):
        self.buffers = list(buffers)
        self.capacity = capacity

    def solve(self) -> list[int]:
        placed: list[tuple[Buffer, int]] = []
        offsets: dict[int, int] = {}
        for buf in sorted(self.buffers, key=lambda b: (b.start_time, b.end_time)):
            align = max(1, buf.alignment)
            conflicts = sorted(
                (off, off + other.size)
                for other, off in placed
                if other.start_time <= buf.end_time and buf.start_time <= other.end_time
            )
            offset = 0
            for lo, hi in conflicts:
                if offset + buf.size <= lo:
                    break
                if hi > offset:
                    offset = -(-hi // align) * align
            if offset + buf.size > self.capacity:
                raise RuntimeError("minimalloc stub: no solution within capacity")
            placed.append((buf, offset))
            offsets[id(buf)] = offset
        return [offsets[id(buf)] for buf in self.buffers]

func.func public @f(%x : index, %c : i1) {
  %cst = arith.constant 0 : i5
  %s0 = "accfg.setup"(%x) <{"accelerator" = "acc", "operandSegmentSizes" = array<i32: 1, 0>, "param_names" = ["A"]}> : (index) -> !accfg.state<"acc">
  %t0 = "accfg.launch"(%cst, %s0) <{"param_names" = ["launch"], "accelerator" = "acc"}> : (i5,!accfg.state<"acc">) -> !accfg.token<"acc">
  "accfg.await"(%t0) : (!accfg.token<"acc">) -> ()
  "scf.if"(%c) ({
    func.call @clobber() : () -> ()
    scf.yield
  }, {
    scf.yield
  }) : (i1) -> ()
  %s1 = "accfg.setup"(%x) <{"accelerator" = "acc", "operandSegmentSizes" = array<i32: 1, 0>, "param_names" = ["A"]}> : (index) -> !accfg.state<"acc">
  %t1 = "accfg.launch"(%cst, %s1) <{"param_names" = ["launch"], "accelerator" = "acc"}> : (i5,!accfg.state<"acc">) -> !accfg.token<"acc">
  "accfg.await"(%t1) : (!accfg.token<"acc">) -> ()
  func.return
}
func.func private @clobber() -> ()

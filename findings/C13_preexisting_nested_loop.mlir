func.func public @nested(%in : memref<64xi32, "L3">, %out : memref<64xi32, "L3">) {
  %c0 = arith.constant 0 : index
  %c1 = arith.constant 1 : index
  %c2 = arith.constant 2 : index
  %A = memref.alloc() {alignment = 64 : i64} : memref<64xi32, "L1">
  %B = memref.alloc() {alignment = 64 : i64} : memref<64xi32, "L1">
  scf.for %i = %c0 to %c2 step %c1 {
    "memref.copy"(%in, %A) : (memref<64xi32, "L3">, memref<64xi32, "L1">) -> ()
    scf.for %j = %c0 to %c2 step %c1 {
      linalg.generic {indexing_maps = [affine_map<(d0) -> (d0)>, affine_map<(d0) -> (d0)>], iterator_types = ["parallel"]} ins(%A : memref<64xi32, "L1">) outs(%B : memref<64xi32, "L1">) {
      ^bb0(%a : i32, %b : i32):
        linalg.yield %a : i32
      }
    }
  }
  func.return
}

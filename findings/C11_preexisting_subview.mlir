builtin.module {
  func.func public @test() {
    %n = arith.constant 8 : index
    %s = arith.constant 32 : index
    %a = "snax.alloc"(%s, %n) <{memory_space = "Test", alignment = 4 : i32}> : (index, index) -> !llvm.struct<(!llvm.ptr, !llvm.ptr, i32, !llvm.array<1 x i32>, !llvm.array<1 x i32>)>
    %am = "builtin.unrealized_conversion_cast"(%a) : (!llvm.struct<(!llvm.ptr, !llvm.ptr, i32, !llvm.array<1 x i32>, !llvm.array<1 x i32>)>) -> memref<8xi32>
    %av = "memref.subview"(%am) <{operandSegmentSizes = array<i32: 1, 0, 0, 0>, static_offsets = array<i64: 0>, static_sizes = array<i64: 4>, static_strides = array<i64: 1>}> : (memref<8xi32>) -> memref<4xi32, strided<[1]>>
    %b = "snax.alloc"(%s, %n) <{memory_space = "Test", alignment = 4 : i32}> : (index, index) -> !llvm.struct<(!llvm.ptr, !llvm.ptr, i32, !llvm.array<1 x i32>, !llvm.array<1 x i32>)>
    %bm = "builtin.unrealized_conversion_cast"(%b) : (!llvm.struct<(!llvm.ptr, !llvm.ptr, i32, !llvm.array<1 x i32>, !llvm.array<1 x i32>)>) -> memref<8xi32>
    "test.op"(%bm) : (memref<8xi32>) -> ()
    "test.op"(%av) : (memref<4xi32, strided<[1]>>) -> ()
    func.return
  }
}

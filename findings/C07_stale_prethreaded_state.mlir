// F-31: snax-opt -p accfg-trace-states,accfg-dedup
// The input already threads the second setup `from %s1`, but an unannotated call sits in between. The tracer forgets the state at
// the call and then left the stale `from %s1` in place because the accelerator was no longer in its table; dedup removed A = %A.
func.func private @clobber() -> ()
func.func @stale(%A: i32) {
    %s1 = accfg.setup "simple" to ("A" = %A : i32) : !accfg.state<"simple">
    %t1 = "accfg.launch"(%s1) <{param_names = [], accelerator = "simple"}> : (!accfg.state<"simple">) -> !accfg.token<"simple">
    "accfg.await"(%t1) : (!accfg.token<"simple">) -> ()
    func.call @clobber() : () -> ()
    %s2 = accfg.setup "simple" from %s1 to ("A" = %A : i32) : !accfg.state<"simple">
    %t2 = "accfg.launch"(%s2) <{param_names = [], accelerator = "simple"}> : (!accfg.state<"simple">) -> !accfg.token<"simple">
    "accfg.await"(%t2) : (!accfg.token<"simple">) -> ()
    return
}

// F-25 (fixed in /repo 47b14e9): snax-opt -p snax-copy-to-dma
// The destination layout has two strides with the same (largest) static step 16: a unit-bound one and one of
// bound 4. Before the fix get_step_ops seeded the dynamic step of dimension 0 with 16 * 1 = 16 elements instead
// of 16 * 4 = 64, so consecutive row blocks overlapped in the destination.
func.func @copy(%src : memref<?x4xi32>, %dst : memref<?x4xi32, #tsl.tsl<[?, 4] -> (?, 4), [1, 4] -> (16, 16)>>) {
  "memref.copy"(%src, %dst) : (memref<?x4xi32>, memref<?x4xi32, #tsl.tsl<[?, 4] -> (?, 4), [1, 4] -> (16, 16)>>) -> ()
  func.return
}

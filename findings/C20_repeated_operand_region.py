#!/usr/bin/env python3
"""C20 demo (variant a).

usage: demo.py <runnable repo root>

Merges two kernels into one processing element through the encode/combine API,
decodes each of them against the merged element and checks that
  * the number of produced switch values equals the number of switches the
    hardware exposes (PEOp.get_true_switches / SNAXPHSAccelerator fields), and
  * the merged element, configured with the produced values (assigned in order to
    the hardware switches), computes the kernel's function.
Exit 0 = property holds, exit 1 = violated.
"""

import sys
import warnings

warnings.filterwarnings("ignore")
root = sys.argv[1]
sys.path.insert(0, root)

from xdsl.context import Context  # noqa: E402
from xdsl.dialects import arith, builtin, func, linalg, tensor  # noqa: E402
from xdsl.parser import Parser  # noqa: E402
from xdsl.pattern_rewriter import PatternRewriter  # noqa: E402

from snaxc.dialects import phs  # noqa: E402
from snaxc.phs.combine import append_to_abstract_graph  # noqa: E402
from snaxc.phs.decode import decode_abstract_graph  # noqa: E402
from snaxc.phs.encode import convert_generic_body_to_phs  # noqa: E402

TEMPLATE = """
func.func @f(%a: tensor<8xi32>, %b: tensor<8xi32>, %o: tensor<8xi32>) -> tensor<8xi32> {{
  %r = linalg.generic {{indexing_maps = [affine_map<(d0) -> (d0)>, affine_map<(d0) -> (d0)>, affine_map<(d0) -> (d0)>], iterator_types = ["parallel"]}}
    ins(%a, %b : tensor<8xi32>, tensor<8xi32>) outs(%o : tensor<8xi32>) {{
  ^bb0(%in0: i32, %in1: i32, %out: i32):
{body}
  }} -> tensor<8xi32>
  return %r : tensor<8xi32>
}}
"""

M = 1 << 32
FUN = {
    "addi": lambda a, b: (a + b) % M,
    "subi": lambda a, b: (a - b) % M,
    "muli": lambda a, b: (a * b) % M,
    "andi": lambda a, b: a & b,
    "ori": lambda a, b: a | b,
    "xori": lambda a, b: a ^ b,
}


def kernel_pe(steps):
    ctx = Context()
    for d in (arith.Arith, builtin.Builtin, func.Func, linalg.Linalg, tensor.Tensor, phs.Phs):
        ctx.load_dialect(d)
    lines = [f"    %r{k} = arith.{op} %{lhs}, %{rhs} : i32" for k, (op, lhs, rhs) in enumerate(steps)]
    lines.append(f"    linalg.yield %r{len(steps) - 1} : i32")
    mod = Parser(ctx, TEMPLATE.format(body="\n".join(lines))).parse_module()
    gen = [o for o in mod.walk() if o.name == "linalg.generic"][0]
    return convert_generic_body_to_phs(gen, "acc", PatternRewriter(gen))


def ref_eval(steps, in0, in1):
    env = {"in0": in0, "in1": in1}
    for k, (op, lhs, rhs) in enumerate(steps):
        env[f"r{k}"] = FUN[op](env[lhs], env[rhs])
    return env[f"r{len(steps) - 1}"]


def hw_switches(pe):
    """switch block arguments that exist in hardware (one-option chooses are optimised away)"""
    out = []
    for sw in pe.get_switches():
        user = sw.get_user_of_unique_use()
        if isinstance(user, phs.ChooseOp) and len(list(user.operations())) == 1:
            continue
        out.append(sw)
    return out


def pe_eval(pe, data, values):
    env = dict(zip(pe.data_operands(), data))
    for sw in pe.get_switches():
        env[sw] = 0
    for sw, v in zip(hw_switches(pe), values):
        env[sw] = v
    for op in pe.body.ops:
        if isinstance(op, phs.MuxOp):
            env[op.res] = env[op.rhs] if env[op.switch] == 1 else env[op.lhs]
        elif isinstance(op, phs.ChooseOp):
            region = op.regions[env[op.switch]]
            renv = dict(zip(region.block.args, [env[o] for o in op.data_operands]))
            for iop in region.block.ops:
                if isinstance(iop, phs.YieldOp):
                    env[op.results[0]] = renv[iop.operands[0]]
                else:
                    f = FUN[iop.name.split(".")[1]]
                    renv[iop.results[0]] = f(renv[iop.operands[0]], renv[iop.operands[1]])
        elif isinstance(op, phs.YieldOp):
            return env[op.operands[0]]
    raise AssertionError("no terminator")


DATA = [(a, b) for a in (0, 1, 2, 3, 5, 7) for b in (0, 1, 2, 4, 6, 11)] + [(123456789, 987654321), (M - 1, 17)]

# history: a two-stage kernel first, then a one-stage kernel with swapped routing
HISTORY = [
    [("addi", "in0", "in1"), ("muli", "r0", "r0")],
    [("addi", "in0", "in1"), ("muli", "r0", "in1")],
]
_OLD = [
    [("addi", "in0", "in1"), ("muli", "in0", "r0")],
    [("subi", "in1", "in0")],
]


def main():
    abstract = kernel_pe(HISTORY[0])
    for steps in HISTORY[1:]:
        append_to_abstract_graph(kernel_pe(steps), abstract)

    failures = []
    n_hw = abstract.get_true_switches()
    assert n_hw == len(hw_switches(abstract))
    for steps in HISTORY:
        try:
            values = list(decode_abstract_graph(abstract, kernel_pe(steps)))
        except Exception as e:  # undecodable
            failures.append(f"kernel {steps}: decode raised {e!r}")
            continue
        if len(values) != n_hw:
            failures.append(
                f"kernel {steps}: decode produced {len(values)} switch values {values}, "
                f"hardware has {n_hw} configuration switches"
            )
        for d in DATA:
            got, want = pe_eval(abstract, d, values), ref_eval(steps, *d)
            if got != want:
                failures.append(
                    f"kernel {steps}: switches {values} make the merged PE compute {got} for inputs {d}, expected {want}"
                )
                break

    if failures:
        print("C20 VIOLATED:")
        for f in failures:
            print("  " + f)
        return 1
    print("C20 holds for the demo history")
    return 0


if __name__ == "__main__":
    sys.exit(main())

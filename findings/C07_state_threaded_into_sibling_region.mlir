func.func @alternatives() {
    %A, %B = "test.op"() : () -> (i32, i32)
    "test.op"() ({
        %s1 = accfg.setup "acc" to ("A" = %A : i32, "B" = %B : i32) : !accfg.state<"acc">
        %t1 = "accfg.launch"(%s1) <{"param_names" = [], "accelerator" = "acc"}> : (!accfg.state<"acc">) -> !accfg.token<"acc">
        "accfg.await"(%t1) : (!accfg.token<"acc">) -> ()
        "test.termop"() : () -> ()
    }, {
        %s2 = accfg.setup "acc" to ("A" = %A : i32, "B" = %B : i32) : !accfg.state<"acc">
        %t2 = "accfg.launch"(%s2) <{"param_names" = [], "accelerator" = "acc"}> : (!accfg.state<"acc">) -> !accfg.token<"acc">
        "accfg.await"(%t2) : (!accfg.token<"acc">) -> ()
        "test.termop"() : () -> ()
    }) : () -> ()
    return
}

func.func @blocks(%c : i1) {
    %A, %B = "test.op"() : () -> (i32, i32)
    "cf.cond_br"(%c)[^then, ^else] <{operandSegmentSizes = array<i32: 1, 0, 0>}> : (i1) -> ()
  ^then:
    %s1 = accfg.setup "acc" to ("A" = %A : i32, "B" = %B : i32) : !accfg.state<"acc">
    %t1 = "accfg.launch"(%s1) <{"param_names" = [], "accelerator" = "acc"}> : (!accfg.state<"acc">) -> !accfg.token<"acc">
    "accfg.await"(%t1) : (!accfg.token<"acc">) -> ()
    return
  ^else:
    %s2 = accfg.setup "acc" to ("A" = %A : i32, "B" = %B : i32) : !accfg.state<"acc">
    %t2 = "accfg.launch"(%s2) <{"param_names" = [], "accelerator" = "acc"}> : (!accfg.state<"acc">) -> !accfg.token<"acc">
    "accfg.await"(%t2) : (!accfg.token<"acc">) -> ()
    return
}

// dispatch-regions (before the repair): `any(dispatcher(block, ...) for block in blocks)` stops at the first
// block that changed, so the copy in ^bb1 is executed by every core.
func.func public @f(%a : memref<16xi8>, %b : memref<16xi8>, %c : memref<16xi8>) {
  "memref.copy"(%a, %b) : (memref<16xi8>, memref<16xi8>) -> ()
  cf.br ^bb1
^bb1:
  "memref.copy"(%b, %c) : (memref<16xi8>, memref<16xi8>) -> ()
  func.return
}

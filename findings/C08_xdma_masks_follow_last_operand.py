#!/usr/bin/env python3
"""xDMA: the channel/byte masks of streamer i are derived from the zero-pattern flag of the LAST streamer (F-36).
usage: demo.py <runnable repo root>; exit 1 when a mask does not belong to its own streamer's operand"""
import os, sys
root = os.path.abspath(sys.argv[1]); sys.path.insert(0, root); os.chdir(root)
from xdsl.dialects import arith, get_all_dialects
from xdsl.dialects.builtin import IntegerAttr
from xdsl.ir import BlockArgument, OpResult
from xdsl.parser import Parser
from snaxc.accelerators import AccContext
from snaxc.accelerators.snax_xdma import SNAXXDMAAccelerator, default_streamer
from snaxc.dialects import accfg, get_all_snax_dialects
from snaxc.transforms.convert_linalg_to_accfg import ConvertLinalgToAccPass
MASK = 0xFFFFFFFF
def run(zero_reader: bool, zero_writer: bool):
    ctx = AccContext(); d = get_all_dialects(); d.pop("accfg", None); d.pop("stream", None); d.update(get_all_snax_dialects())
    for n, f in d.items(): ctx.register_dialect(n, f)
    ctx.register_accelerator("snax_xdma", lambda: SNAXXDMAAccelerator(default_streamer))
    acc = SNAXXDMAAccelerator(default_streamer)
    pats = ", ".join(f"#snax_stream.stride_pattern<ub = {ub}, ts = {ts}, ss = {ss}>" for ub, ts, ss in (([2, 3], [64, 136], [8]), ([2, 3], [72, 152], [16])))
    a = "%c0" if zero_reader else "%pin"; b = "%c0" if zero_writer else "%pout"
    src = f"""
builtin.module {{
  func.func @f(%pin : index, %pout : index) {{
    %c0 = arith.constant 0 : index
    "snax_stream.streaming_region"({a}, {b}) <{{stride_patterns = [{pats}], operandSegmentSizes = array<i32: 1, 1>, accelerator = "snax_xdma"}}> ({{
    ^bb0(%x : !dart.stream<i8>, %o : !dart.stream<i8>):
      dart.yield %x : !dart.stream<i8>
    }}) : (index, index) -> ()
    func.return
  }}
}}"""
    m = Parser(ctx, src).parse_module()
    m.body.block.insert_op_before(acc.generate_acc_op(), m.body.block.first_op)
    ConvertLinalgToAccPass().apply(ctx, m)
    s = [op for op in m.walk() if isinstance(op, accfg.SetupOp)][0]
    def fold(v):
        if isinstance(v, BlockArgument): return "ptr"
        return v.op.value.value.data & MASK
    return {n: fold(v) for n, v in s.iter_params()}
bad = []
for zr, zw in ((False, False), (True, False), (False, True), (True, True)):
    obs = run(zr, zw)
    for name, zero in (("a", zr), ("b", zw)):
        for fld in (f"{name}_enabled_chan", f"{name}_enabled_byte"):
            if fld in obs:
                want = 0 if zero else MASK
                if obs[fld] != want:
                    bad.append(f"reader zero={zr} writer zero={zw}: {fld} = {obs[fld]:#x}, expected {want:#x} (its own operand is {'the zero pattern' if zero else 'a real pointer'})")
if bad:
    print("C08 VIOLATED:"); [print("  " + b) for b in bad]; sys.exit(1)
print("C08 holds: every mask follows its own streamer's operand"); sys.exit(0)

func.func public @f(%x : index, %y : index) {
  %cst = arith.constant 0 : i5
  %lb = arith.constant 0 : index
  %ub = arith.constant 100 : index
  %step = arith.constant 1 : index
  scf.for %iv = %lb to %ub step %step {
    func.call @clobber() : () -> ()
    %s1 = "accfg.setup"(%x, %iv) <{"accelerator" = "acc", "operandSegmentSizes" = array<i32: 2, 0>, "param_names" = ["A", "B"]}> : (index, index) -> !accfg.state<"acc">
    %t1 = "accfg.launch"(%cst, %s1) <{"param_names" = ["launch"], "accelerator" = "acc"}> : (i5,!accfg.state<"acc">) -> !accfg.token<"acc">
    "accfg.await"(%t1) : (!accfg.token<"acc">) -> ()
    scf.yield
  }
  func.return
}
func.func private @clobber() -> ()

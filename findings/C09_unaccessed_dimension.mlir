// F-32: snax-opt -p insert-accfg-op{accelerator=snax_alu},set-memory-layout
// Operand 0 is read at row 0 only (constant index), operand 1 is covered partially (bounds [2,4] on a dimension of size 64 are
// tiled at every level). The chosen layouts had bounds [1] x [16] for the 8x16 operand and [2, 4] for the 64-element one:
// they do not cover the operands' shapes.
func.func @row0(%arg0 : memref<8x16xi64, "L1">, %arg1 : memref<64xi64, "L1">, %arg2 : memref<16xi64, "L1">) {
  "dart.schedule"(%arg0, %arg1, %arg2) <{patterns = [affine_map<(d0, d1) -> (0, ((d0 * 4) + d1))>, affine_map<(d0, d1) -> (((d0 * 4) + d1))>, affine_map<(d0, d1) -> (((d0 * 4) + d1))>], accelerator = "snax_alu", tiles = [[]], bounds = [4 : index, 4 : index], operandSegmentSizes = array<i32: 2, 1>}> ({
  ^bb0(%0 : !dart.stream<i64>, %1 : !dart.stream<i64>, %2 : !dart.stream<i64>):
    %3 = "dart.generic"(%0, %1) <{library_call = "snax_alu"}> ({
    ^bb1(%a : i64, %b : i64, %c : i64):
      %4 = kernel.add %a, %b : i64, i64 -> i64
      dart.yield %4 : i64
    }) : (!dart.stream<i64>, !dart.stream<i64>) -> !dart.stream<i64>
    dart.yield %3 : !dart.stream<i64>
  }) : (memref<8x16xi64, "L1">, memref<64xi64, "L1">, memref<16xi64, "L1">) -> ()
  func.return
}

// subviews of a TSL memref taken at STATIC offsets (what is left after the loop around a tiled subview is unrolled / its index folded)
%m = "test.op"() : () -> (memref<16x16xi8, #tsl.tsl<[2, 8] -> (128, 8), [2, 8] -> (64, 1)>>)
%j = "test.op"() : () -> (index)

// all offsets static: the pointer must be base + (8 div 8) * 128 * 1
%s0 = memref.subview %m[8, 0] [8, 16] [1, 1] : memref<16x16xi8, #tsl.tsl<[2, 8] -> (128, 8), [2, 8] -> (64, 1)>> to memref<8x16xi8, #tsl.tsl<[8] -> (8), [2, 8] -> (64, 1)>>
%p0 = "memref.extract_aligned_pointer_as_index"(%s0) : (memref<8x16xi8, #tsl.tsl<[8] -> (8), [2, 8] -> (64, 1)>>) -> index
"test.op"(%p0) : (index) -> ()

// a static non-zero row offset next to a dynamic column offset: base + 128 + (%j div 8) * 64
%s1 = memref.subview %m[8, %j] [8, 8] [1, 1] : memref<16x16xi8, #tsl.tsl<[2, 8] -> (128, 8), [2, 8] -> (64, 1)>> to memref<8x8xi8, #tsl.tsl<[8] -> (8), [8] -> (1)>>
%p1 = "memref.extract_aligned_pointer_as_index"(%s1) : (memref<8x8xi8, #tsl.tsl<[8] -> (8), [8] -> (1)>>) -> index
"test.op"(%p1) : (index) -> ()

// all offsets zero: the pointer is the base pointer
%s2 = memref.subview %m[0, 0] [8, 8] [1, 1] : memref<16x16xi8, #tsl.tsl<[2, 8] -> (128, 8), [2, 8] -> (64, 1)>> to memref<8x8xi8, #tsl.tsl<[8] -> (8), [8] -> (1)>>
%p2 = "memref.extract_aligned_pointer_as_index"(%s2) : (memref<8x8xi8, #tsl.tsl<[8] -> (8), [8] -> (1)>>) -> index
"test.op"(%p2) : (index) -> ()

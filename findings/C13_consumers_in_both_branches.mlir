func.func public @f(%A : memref<16xi32>, %B : memref<16xi32>, %O : memref<16xi32>, %c : i1) {
  "memref.copy"(%A, %B) : (memref<16xi32>, memref<16xi32>) -> ()
  scf.if %c {
    linalg.generic {indexing_maps = [affine_map<(d0) -> (d0)>, affine_map<(d0) -> (d0)>], iterator_types = ["parallel"]} ins(%B : memref<16xi32>) outs(%O : memref<16xi32>) {
    ^bb0(%a : i32, %b : i32):
      linalg.yield %a : i32
    }
  } else {
    linalg.generic {indexing_maps = [affine_map<(d0) -> (d0)>, affine_map<(d0) -> (d0)>], iterator_types = ["parallel"]} ins(%B : memref<16xi32>) outs(%O : memref<16xi32>) {
    ^bb0(%a : i32, %b : i32):
      linalg.yield %a : i32
    }
  }
  func.return
}

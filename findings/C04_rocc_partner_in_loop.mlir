builtin.module {
  "accfg.accelerator"() <{
      name            = @gemmini,
      fields          = { k_LOOP_WS_CONFIG_BOUNDS.rs1=9, k_LOOP_WS_CONFIG_BOUNDS.rs2=9,
                          k_LOOP_WS_CONFIG_ADDRS_AB.rs1=10, k_LOOP_WS_CONFIG_ADDRS_AB.rs2=10 },
      launch_fields   = { k_LOOP_WS.rs1=8, k_LOOP_WS.rs2=8 },
      barrier         = 0x0BAD
  }> : () -> ()

  func.func public @tile(%a : i64, %b : i64, %v : i64, %w : i64, %flags : i64, %lb : index, %ub : index, %step : index) {
    %s0 = accfg.setup "gemmini" to ("k_LOOP_WS_CONFIG_ADDRS_AB.rs1" = %a : i64, "k_LOOP_WS_CONFIG_ADDRS_AB.rs2" = %b : i64) : !accfg.state<"gemmini">
    %r = scf.for %i = %lb to %ub step %step iter_args(%st = %s0) -> (!accfg.state<"gemmini">) {
      %s2 = accfg.setup "gemmini" from %st to ("k_LOOP_WS_CONFIG_ADDRS_AB.rs1" = %v : i64) : !accfg.state<"gemmini">
      %t1 = "accfg.launch"(%flags, %flags, %s2) <{param_names = ["k_LOOP_WS.rs1", "k_LOOP_WS.rs2"], accelerator = "gemmini"}> : (i64, i64, !accfg.state<"gemmini">) -> !accfg.token<"gemmini">
      "accfg.await"(%t1) : (!accfg.token<"gemmini">) -> ()
      %s3 = accfg.setup "gemmini" from %s2 to ("k_LOOP_WS_CONFIG_ADDRS_AB.rs2" = %w : i64) : !accfg.state<"gemmini">
      %t2 = "accfg.launch"(%flags, %flags, %s3) <{param_names = ["k_LOOP_WS.rs1", "k_LOOP_WS.rs2"], accelerator = "gemmini"}> : (i64, i64, !accfg.state<"gemmini">) -> !accfg.token<"gemmini">
      "accfg.await"(%t2) : (!accfg.token<"gemmini">) -> ()
      scf.yield %s3 : !accfg.state<"gemmini">
    }
    func.return
  }
}

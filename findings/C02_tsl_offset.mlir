// F-27 (fixed in /repo 81f8758): same pipeline; a tiled-strided layout with offset 4
// TiledStridedLayoutAttr.get_affine_map ignored the offset: operand 0 was streamed from the unshifted base pointer.
func.func public @streamer_add(%arg0 : memref<16xi64, #tsl.tsl<[16] -> (1), offset: 4>>, %arg1 : memref<16xi64>, %arg2 : memref<16xi64>) {
  "dart.operation"(%arg0, %arg1, %arg2) <{patterns = [affine_map<(d0) -> (d0)>, affine_map<(d0) -> (d0)>, affine_map<(d0) -> (d0)>], accelerator = "snax_alu", operandSegmentSizes = array<i32: 2, 1>}> ({
  ^bb0(%0 : !dart.stream<i64>, %1 : !dart.stream<i64>, %2 : !dart.stream<i64>):
    %3 = "dart.generic"(%0, %1) <{library_call = "snax_alu"}> ({
    ^bb1(%arg3 : i64, %arg4 : i64, %arg5 : i64):
      %4 = kernel.add %arg3, %arg4 : i64, i64 -> i64
      dart.yield %4 : i64
    }) : (!dart.stream<i64>, !dart.stream<i64>) -> !dart.stream<i64>
    dart.yield %3 : !dart.stream<i64>
  }) : (memref<16xi64, #tsl.tsl<[16] -> (1), offset: 4>>, memref<16xi64>, memref<16xi64>) -> ()
  func.return
}

// an initialised global handed to a consumer in a dense tiled layout that starts 4 elements into its buffer
"memref.global"() <{alignment = 64 : i64, constant, initial_value = dense<[[0, 1, 2, 3], [4, 5, 6, 7], [8, 9, 10, 11], [12, 13, 14, 15]]> : tensor<4x4xi8>, sym_name = "global", sym_visibility = "private", type = memref<4x4xi8>}> : () -> ()
%0 = memref.get_global @global : memref<4x4xi8, "L3">
%1 = "snax.layout_cast"(%0) : (memref<4x4xi8, "L3">) -> memref<4x4xi8, #tsl.tsl<[2, 2] -> (8, 2), [2, 2] -> (4, 1), offset: 4>, "L3">
"test.op"(%1) : (memref<4x4xi8, #tsl.tsl<[2, 2] -> (8, 2), [2, 2] -> (4, 1), offset: 4>, "L3">) -> ()

#!/usr/bin/env python3
"""parse_config registers every accelerator of a cluster under its own name, but the factories were closures over the loop variable:
every name resolved to the LAST accelerator of the configuration (F-38).
usage: demo.py <runnable repo root>   (a two-line stand-in for the `dacite` package, which is not installed, is put on the path; the
demo hands parse_config an already constructed SystemConfig, so the stand-in only passes it through)"""
import os, sys
root = os.path.abspath(sys.argv[1]); here = os.path.dirname(os.path.abspath(__file__))
sys.path.insert(0, os.path.join(here, "C04_registry_stub")); sys.path.insert(0, root); os.chdir(root)
from snaxc.tools.configs import ClusterConfig, CoreConfig, SnaxAluWrapper, SnaxMemoryConfig, SnaxXdmaWrapper, SystemConfig
from snaxc.tools.config_parser import parse_config
mem = SnaxMemoryConfig("L3", 0, 1 << 20); l1 = SnaxMemoryConfig("L1", 0x10000000, 1 << 17)
cfg = SystemConfig(mem, [ClusterConfig(l1, [CoreConfig([SnaxAluWrapper(None)]), CoreConfig([SnaxXdmaWrapper(None)])])])
ctx = parse_config(cfg)
bad = []
for name in ("snax_alu", "snax_xdma"):
    acc = ctx.get_acc(name)
    print(f"{name}: {type(acc).__name__} (name {acc.name})")
    if acc.name != name:
        bad.append(f"get_acc({name!r}) returns the {acc.name} accelerator: ops of {name} are lowered with the register map and streamer layout of {acc.name}")
if bad:
    print("VIOLATED:"); [print("  " + b) for b in bad]; sys.exit(1)
print("every registered name resolves to its own accelerator"); sys.exit(0)

"memref.global"() <{alignment = 64 : i64, constant, initial_value = dense<[[0, 1, 2, 3], [4, 5, 6, 7], [8, 9, 10, 11], [12, 13, 14, 15]]> : tensor<4x4xi8>, sym_name = "w", sym_visibility = "private", type = memref<4x4xi8>}> : () -> ()
func.func public @f(%O : memref<4x4xi8, "L1">, %P : memref<2x4xi8, "L1">) {
  %0 = memref.get_global @w : memref<4x4xi8, "L1">
  %2 = "snax.layout_cast"(%0) : (memref<4x4xi8, "L1">) -> memref<4x4xi8, #tsl.tsl<[2, 2] -> (8, 2), [2, 2] -> (4, 1)>, "L1">
  %1 = memref.subview %0[2, 0] [2, 4] [1, 1] : memref<4x4xi8, "L1"> to memref<2x4xi8, strided<[4, 1], offset: 8>, "L1">
  linalg.generic {indexing_maps = [affine_map<(d0, d1) -> (d0, d1)>, affine_map<(d0, d1) -> (d0, d1)>], iterator_types = ["parallel", "parallel"]} ins(%2 : memref<4x4xi8, #tsl.tsl<[2, 2] -> (8, 2), [2, 2] -> (4, 1)>, "L1">) outs(%O : memref<4x4xi8, "L1">) {
  ^bb0(%a : i8, %b : i8):
    linalg.yield %a : i8
  }
  linalg.generic {indexing_maps = [affine_map<(d0, d1) -> (d0, d1)>, affine_map<(d0, d1) -> (d0, d1)>], iterator_types = ["parallel", "parallel"]} ins(%1 : memref<2x4xi8, strided<[4, 1], offset: 8>, "L1">) outs(%P : memref<2x4xi8, "L1">) {
  ^bb0(%a : i8, %b : i8):
    linalg.yield %a : i8
  }
  func.return
}

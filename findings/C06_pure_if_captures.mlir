// F-29: snax-opt -p accfg-config-overlap
// The value of field A is produced by a side-effect-free scf.if whose branch uses %sum, computed between the await and the
// setup. get_scoped_setup_inputs follows only the operands of the producers it moves (here: %cond), not the values captured in
// their regions, so the scf.if is moved up behind the launch while %sum stays below it: use before definition.
func.func @captured(%A: i32, %B: i32, %cond: i1) {
    %s1 = accfg.setup "simple" to ("A" = %A : i32) : !accfg.state<"simple">
    %t = "accfg.launch"(%s1) <{param_names = [], accelerator = "simple"}> : (!accfg.state<"simple">) -> !accfg.token<"simple">
    "accfg.await"(%t) : (!accfg.token<"simple">) -> ()
    %sum = arith.addi %A, %B : i32
    %v = scf.if %cond -> (i32) {
        scf.yield %sum : i32
    } else {
        scf.yield %B : i32
    }
    %s2 = accfg.setup "simple" from %s1 to ("A" = %v : i32) : !accfg.state<"simple">
    return
}

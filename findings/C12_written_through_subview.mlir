func.func public @f(%X : memref<4x4xi8, "L3">, %A : memref<2x4xi8, "L1">) {
  %c = "memref.memory_space_cast"(%X) : (memref<4x4xi8, "L3">) -> memref<4x4xi8, "L1">
  %v = memref.subview %c[2, 0] [2, 4] [1, 1] : memref<4x4xi8, "L1"> to memref<2x4xi8, strided<[4, 1], offset: 8>, "L1">
  linalg.generic {indexing_maps = [affine_map<(d0, d1) -> (d0, d1)>, affine_map<(d0, d1) -> (d0, d1)>], iterator_types = ["parallel", "parallel"]} ins(%A : memref<2x4xi8, "L1">) outs(%v : memref<2x4xi8, strided<[4, 1], offset: 8>, "L1">) {
  ^bb0(%a : i8, %b : i8):
    linalg.yield %a : i8
  }
  func.return
}

// F-26 (fixed in /repo 27f8d49): snax-opt -p insert-accfg-op{accelerator=snax_alu},dart-scheduler,dart-layout-resolution
// Operand 0 has a static layout offset of 4 elements (32 bytes). Before the fix its access pattern was
// (d0 * 64 + d1 * 40) instead of (d0 * 32 + d1 * 8) - the offset was added to every unit response - and the offset
// itself never reached the base pointer.
func.func public @streamer_add(%arg0 : memref<16xi64, strided<[1], offset: 4>>, %arg1 : memref<16xi64>, %arg2 : memref<16xi64>) {
  "dart.operation"(%arg0, %arg1, %arg2) <{patterns = [affine_map<(d0) -> (d0)>, affine_map<(d0) -> (d0)>, affine_map<(d0) -> (d0)>], accelerator = "snax_alu", operandSegmentSizes = array<i32: 2, 1>}> ({
  ^bb0(%0 : !dart.stream<i64>, %1 : !dart.stream<i64>, %2 : !dart.stream<i64>):
    %3 = "dart.generic"(%0, %1) <{library_call = "snax_alu"}> ({
    ^bb1(%arg3 : i64, %arg4 : i64, %arg5 : i64):
      %4 = kernel.add %arg3, %arg4 : i64, i64 -> i64
      dart.yield %4 : i64
    }) : (!dart.stream<i64>, !dart.stream<i64>) -> !dart.stream<i64>
    dart.yield %3 : !dart.stream<i64>
  }) : (memref<16xi64, strided<[1], offset: 4>>, memref<16xi64>, memref<16xi64>) -> ()
  func.return
}

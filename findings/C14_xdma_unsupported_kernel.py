#!/venv/bin/python
"""F-51 (C14): an xDMA streaming region whose kernel no streamer extension provides (kernel.add on i8; the add
extension is i32) was claimed by neither dispatch rule: dispatch_to_dm declines it (no extension matches) and
dispatch_to_compute declined it too (`any(not match)` holds as soon as one extension does not match), so
dispatch-regions left it unguarded and every core executed it.

usage: C14_xdma_unsupported_kernel.py <runnable repo root>      exit 0 = exactly one rule claims the region
"""
import os
import sys

ROOT = os.path.abspath(sys.argv[1])
sys.path.insert(0, ROOT)
os.chdir(ROOT)

from xdsl.dialects import get_all_dialects  # noqa: E402
from xdsl.parser import Parser  # noqa: E402

from snaxc.accelerators import AccContext, get_all_accelerators  # noqa: E402
from snaxc.dialects import dart, get_all_snax_dialects  # noqa: E402
from snaxc.util.dispatching_rules import dispatch_to_compute, dispatch_to_dm  # noqa: E402

SRC = """
func.func public @f(%a : memref<64xi8>, %b : memref<64xi8>, %c : memref<64xi8>) {
  "dart.operation"(%a, %b, %c) <{patterns = [affine_map<(d0) -> (d0)>, affine_map<(d0) -> (d0)>, affine_map<(d0) -> (d0)>], accelerator = "snax_xdma", operandSegmentSizes = array<i32: 2, 1>}> ({
  ^bb0(%0 : !dart.stream<i8>, %1 : !dart.stream<i8>, %2 : !dart.stream<i8>):
    %3 = "dart.generic"(%0, %1) <{library_call = "snax_xdma"}> ({
    ^bb1(%x : i8, %y : i8, %o : i8):
      %4 = kernel.add %x, %y : i8, i8 -> i8
      dart.yield %4 : i8
    }) : (!dart.stream<i8>, !dart.stream<i8>) -> !dart.stream<i8>
    dart.yield %3 : !dart.stream<i8>
  }) : (memref<64xi8>, memref<64xi8>, memref<64xi8>) -> ()
  func.return
}
"""


def make_xdma():
    from snaxc.accelerators.snax_xdma import SNAXXDMAAccelerator

    return SNAXXDMAAccelerator()


ctx = AccContext()
dialects = get_all_dialects()
dialects.pop("accfg", None)
dialects.pop("stream", None)
dialects.update(get_all_snax_dialects())
for name, factory in dialects.items():
    ctx.register_dialect(name, factory)
for name, factory in {**get_all_accelerators(), "snax_xdma": make_xdma}.items():
    ctx.register_accelerator(name, factory)
module = Parser(ctx, SRC).parse_module()
region = next(op for op in module.walk() if isinstance(op, dart.StreamingRegionOpBase))
dm, comp = dispatch_to_dm(region, ctx), dispatch_to_compute(region, ctx)
print(f"dispatch_to_dm = {dm}, dispatch_to_compute = {comp}")
if dm == comp:
    print("VIOLATION (C14): the region is claimed by " + ("both rules" if dm else "neither rule: it gets no guard and runs on every core"))
    sys.exit(1)
sys.exit(0)

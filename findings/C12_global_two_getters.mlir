// realize-memref-casts re-lays-out @g for the first get_global and erases the symbol; the second
// get_global (other function) still refers to @g.
builtin.module {
  "memref.global"() <{"sym_name" = "g", "type" = memref<8x8xi8>, "initial_value" = dense<1> : tensor<8x8xi8>, "sym_visibility" = "public"}> : () -> ()
  func.func public @f() -> memref<8x8xi8, #tsl.tsl<[2, 4] -> (32, 4), [2, 4] -> (16, 1)>> {
    %0 = "memref.get_global"() <{"name" = @g}> : () -> memref<8x8xi8>
    %1 = "snax.layout_cast"(%0) : (memref<8x8xi8>) -> memref<8x8xi8, #tsl.tsl<[2, 4] -> (32, 4), [2, 4] -> (16, 1)>>
    "test.op"(%1) : (memref<8x8xi8, #tsl.tsl<[2, 4] -> (32, 4), [2, 4] -> (16, 1)>>) -> ()
    func.return %1 : memref<8x8xi8, #tsl.tsl<[2, 4] -> (32, 4), [2, 4] -> (16, 1)>>
  }
  func.func public @h() {
    %2 = "memref.get_global"() <{"name" = @g}> : () -> memref<8x8xi8>
    "test.op"(%2) : (memref<8x8xi8>) -> ()
    func.return
  }
}

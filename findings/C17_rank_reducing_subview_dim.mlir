builtin.module {
  func.func @rank_reduced(%arg0 : memref<?x?xi32, "L3">) {
    %c0 = arith.constant 0 : index
    %c1 = arith.constant 1 : index
    %c4 = arith.constant 4 : index
    scf.for %r = %c0 to %c4 step %c1 {
      %n = "memref.dim"(%arg0, %c1) : (memref<?x?xi32, "L3">, index) -> index
      %row = memref.subview %arg0[%r, 0] [1, %n] [1, 1] : memref<?x?xi32, "L3"> to memref<?xi32, strided<[1], offset: ?>, "L3">
      %len = "memref.dim"(%row, %c0) : (memref<?xi32, strided<[1], offset: ?>, "L3">, index) -> index
      %buf = memref.alloc(%len) {"alignment" = 64 : i64} : memref<?xi32, "L1">
      "test.op"(%row, %buf) : (memref<?xi32, strided<[1], offset: ?>, "L3">, memref<?xi32, "L1">) -> ()
    }
    func.return
  }
}

def from_dict(cls, data, config=None):
    return data  # the demo passes an already constructed SystemConfig

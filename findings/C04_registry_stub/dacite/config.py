class Config:
    def __init__(self, **kw): pass

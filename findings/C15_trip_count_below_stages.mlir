// RUN: snax-opt -p construct-pipeline %s | filecheck %s

%0 = memref.alloc() : memref<1x2xi8>
%1 = memref.alloc() : memref<1x2xi8>
%2 = memref.alloc() : memref<1x2xi8>
%3 = memref.alloc() : memref<1x2xi8>
%lb = arith.constant 0 : index
%ub = arith.constant 1 : index
%step = arith.constant 1 : index
scf.for %i = %lb to %ub step %step {
  "test.op"(%i) : (index) -> ()
  "memref.copy"(%0, %1) : (memref<1x2xi8>, memref<1x2xi8>) -> ()
  "snax.cluster_sync_op"() : () -> ()
  "dart.operation"(%1, %2) <{patterns = [], operandSegmentSizes = array<i32: 1, 1>}> ({
    dart.yield
  }) : (memref<1x2xi8>, memref<1x2xi8>) -> ()
  "snax.cluster_sync_op"() : () -> ()
  "memref.copy"(%2, %3) : (memref<1x2xi8>, memref<1x2xi8>) -> ()
  "snax.cluster_sync_op"() : () -> ()
}


// F-34: snax-opt -p set-memory-space,realize-memref-casts
// %x is written, then read, then written again through one shared L1 cast. The buffer was filled (copy %x -> buffer) in front of
// the first READER, i.e. between the first writer and the reader, while the copy back only follows the LAST writer: the reader
// saw the stale contents of %x instead of the first writer's result.
func.func public @wrw(%x : memref<64xi32>, %a : memref<64xi32, "L1">, %b : memref<64xi32, "L1">) {
  linalg.generic {indexing_maps = [affine_map<(d0) -> (d0)>, affine_map<(d0) -> (d0)>], iterator_types = ["parallel"]} ins(%a : memref<64xi32, "L1">) outs(%x : memref<64xi32>) {
  ^bb0(%p : i32, %q : i32):
    linalg.yield %p : i32
  }
  linalg.generic {indexing_maps = [affine_map<(d0) -> (d0)>, affine_map<(d0) -> (d0)>], iterator_types = ["parallel"]} ins(%x : memref<64xi32>) outs(%b : memref<64xi32, "L1">) {
  ^bb0(%p : i32, %q : i32):
    linalg.yield %p : i32
  }
  linalg.generic {indexing_maps = [affine_map<(d0) -> (d0)>, affine_map<(d0) -> (d0)>], iterator_types = ["parallel"]} ins(%b : memref<64xi32, "L1">) outs(%x : memref<64xi32>) {
  ^bb0(%p : i32, %q : i32):
    linalg.yield %p : i32
  }
  func.return
}

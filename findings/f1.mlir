func.func public @f(%x : index, %y : index) {
  %cst = arith.constant 0 : i5
  %lb = arith.constant 0 : index
  %ub = arith.constant 100 : index
  %step = arith.constant 1 : index
  %s0 = "accfg.setup"(%x) <{"accelerator" = "acc", "operandSegmentSizes" = array<i32: 1, 0>, "param_names" = ["A"]}> : (index) -> !accfg.state<"acc">
  %res = scf.for %iv = %lb to %ub step %step iter_args(%st = %s0) -> (!accfg.state<"acc">) {
    %s1 = "accfg.setup"(%x, %st) <{"accelerator" = "acc", "operandSegmentSizes" = array<i32: 1, 1>, "param_names" = ["A"]}> : (index, !accfg.state<"acc">) -> !accfg.state<"acc">
    %t1 = "accfg.launch"(%cst, %s1) <{"param_names" = ["launch"], "accelerator" = "acc"}> : (i5,!accfg.state<"acc">) -> !accfg.token<"acc">
    "accfg.await"(%t1) : (!accfg.token<"acc">) -> ()
    %s2 = "accfg.setup"(%y, %s1) <{"accelerator" = "acc", "operandSegmentSizes" = array<i32: 1, 1>, "param_names" = ["A"]}> : (index, !accfg.state<"acc">) -> !accfg.state<"acc">
    %t2 = "accfg.launch"(%cst, %s2) <{"param_names" = ["launch"], "accelerator" = "acc"}> : (i5,!accfg.state<"acc">) -> !accfg.token<"acc">
    "accfg.await"(%t2) : (!accfg.token<"acc">) -> ()
    scf.yield %s2 : !accfg.state<"acc">
  }
  %s3 = "accfg.setup"(%y, %res) <{"accelerator" = "acc", "operandSegmentSizes" = array<i32: 1, 1>, "param_names" = ["A"]}> : (index, !accfg.state<"acc">) -> !accfg.state<"acc">
  %t3 = "accfg.launch"(%cst, %s3) <{"param_names" = ["launch"], "accelerator" = "acc"}> : (i5,!accfg.state<"acc">) -> !accfg.token<"acc">
  "accfg.await"(%t3) : (!accfg.token<"acc">) -> ()
  func.return
}

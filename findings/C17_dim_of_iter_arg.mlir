builtin.module {
  func.func @carried(%arg0 : memref<?xi32, "L3">, %arg1 : memref<?xi32, "L3">) {
    %c0 = arith.constant 0 : index
    %c1 = arith.constant 1 : index
    %c4 = arith.constant 4 : index
    %r = scf.for %i = %c0 to %c4 step %c1 iter_args(%cur = %arg0) -> (memref<?xi32, "L3">) {
      %n = "memref.dim"(%cur, %c0) : (memref<?xi32, "L3">, index) -> index
      %buf = memref.alloc(%n) {"alignment" = 64 : i64} : memref<?xi32, "L1">
      "test.op"(%cur, %buf) : (memref<?xi32, "L3">, memref<?xi32, "L1">) -> ()
      scf.yield %arg1 : memref<?xi32, "L3">
    }
    func.return
  }
}

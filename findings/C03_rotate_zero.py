#!/venv/bin/python
"""F-58 (C03): SchedulePattern.rotate(0) - rotate the leftmost 0 dimensions, i.e. nothing - returned a pattern with dimension 0 twice:
bounds (2, 3) became (2, 2, 3) and column 0 of A was duplicated, a schedule that visits every operand index twice.
usage: C03_rotate_zero.py <runnable repo root>      exit 0 = rotate(0) and rotate(1) leave the pattern as it is"""
import sys

sys.path.insert(0, sys.argv[1])
import numpy as np  # noqa: E402

from snaxc.ir.dart.access_pattern import SchedulePattern  # noqa: E402
from snaxc.ir.dart.affine_transform import AffineTransform  # noqa: E402

p = SchedulePattern((2, 3), AffineTransform(np.array([[1, 0], [0, 1]]), np.array([0, 0])))
bad = 0
for k in (0, 1):
    r = p.rotate(k)
    print(f"rotate({k}): bounds {r.bounds}, A {r.pattern.A.tolist()}")
    if tuple(r.bounds) != (2, 3) or r.pattern.A.tolist() != [[1, 0], [0, 1]]:
        bad = 1
if bad:
    print("VIOLATION (C03): a rotation of no dimensions changed the iteration space")
sys.exit(bad)

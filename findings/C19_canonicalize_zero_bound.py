import sys
sys.path.insert(0, sys.argv[1])
from xdsl.ir.affine import AffineMap
from snaxc.ir.dart.access_pattern import TemplatePattern
p = TemplatePattern((0, 4), AffineMap.from_callable(lambda a, b: (a * 4 + b,)))
c = p.canonicalize()
n_before = 1
for b in p.bounds: n_before *= b
n_after = 1
for b in c.bounds: n_after *= b
print("bounds", p.bounds, "->", c.bounds, "iterations", n_before, "->", n_after)
sys.exit(0 if n_before == n_after else 1)

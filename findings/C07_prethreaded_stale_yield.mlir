func.func @f() attributes {demo.entry} {
  %a, %b, %c, %d = "test.op"() : () -> (i32, i32, i32, i32)
  %lb, %ub, %step = "test.op"() : () -> (index, index, index)
  %s0 = accfg.setup "acc" to ("A" = %a : i32, "B" = %b : i32) : !accfg.state<"acc">
  %r = scf.for %i = %lb to %ub step %step iter_args(%st = %s0) -> (!accfg.state<"acc">) {
    %s2 = accfg.setup "acc" from %st to ("B" = %b : i32) : !accfg.state<"acc">
    %s3 = accfg.setup "acc" to ("B" = %c : i32) : !accfg.state<"acc">
    scf.yield %s2 : !accfg.state<"acc">
  }
  %s4 = accfg.setup "acc" to ("B" = %b : i32) : !accfg.state<"acc">
  func.return
}

"""snax_alu with a streamer configuration that has two temporal dimensions: the kernel loop count `loop_bound_alu` must be the number of
steps the streams make (the product of the temporal bounds), like K*N*M on gemmx. usage: <this> <repo root>"""
import sys
sys.path.insert(0, sys.argv[1])
from xdsl.dialects import arith, builtin, test
from xdsl.ir import Block, Region
from snaxc.accelerators.snax_alu import SNAXAluAccelerator
from snaxc.accelerators.streamers.streamers import Streamer, StreamerConfiguration, StreamerType
from snaxc.dialects import snax_stream

cfg = StreamerConfiguration([Streamer(StreamerType.Reader, ["n", "n"], [4]), Streamer(StreamerType.Reader, ["n", "n"], [4]), Streamer(StreamerType.Writer, ["n", "n"], [4])])
acc = SNAXAluAccelerator(cfg)
ptrs = [test.TestOp(result_types=[builtin.IndexType()]) for _ in range(3)]
pat = snax_stream.StridePattern(upper_bounds=[6, 7], temporal_strides=[32, 192], spatial_strides=[8])
region = snax_stream.StreamingRegionOp([ptrs[0].res[0], ptrs[1].res[0]], [ptrs[2].res[0]], [pat, pat, pat], "snax_alu", Region(Block()))
vals = acc._generate_stream_setup_vals(region)
got = dict(zip(acc.fields, vals))["loop_bound_alu"][1].owner.value.value.data
steps = 6 * 7
print(f"streams make {steps} steps, loop_bound_alu = {got}")
sys.exit(0 if got == steps else 1)

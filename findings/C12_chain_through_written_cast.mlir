func.func public @f(%X : memref<4x4xi8, "L3">, %A : memref<4x4xi8, "L1">, %O : memref<4x4xi8, "L1">) {
  %c = "memref.memory_space_cast"(%X) : (memref<4x4xi8, "L3">) -> memref<4x4xi8, "L1">
  linalg.generic {indexing_maps = [affine_map<(d0, d1) -> (d0, d1)>, affine_map<(d0, d1) -> (d0, d1)>], iterator_types = ["parallel", "parallel"]} ins(%A : memref<4x4xi8, "L1">) outs(%c : memref<4x4xi8, "L1">) {
  ^bb0(%a : i8, %b : i8):
    linalg.yield %a : i8
  }
  %l = "snax.layout_cast"(%c) : (memref<4x4xi8, "L1">) -> memref<4x4xi8, #tsl.tsl<[2, 2] -> (8, 2), [2, 2] -> (4, 1)>, "L1">
  linalg.generic {indexing_maps = [affine_map<(d0, d1) -> (d0, d1)>, affine_map<(d0, d1) -> (d0, d1)>], iterator_types = ["parallel", "parallel"]} ins(%l : memref<4x4xi8, #tsl.tsl<[2, 2] -> (8, 2), [2, 2] -> (4, 1)>, "L1">) outs(%O : memref<4x4xi8, "L1">) {
  ^bb0(%a : i8, %b : i8):
    linalg.yield %a : i8
  }
  linalg.generic {indexing_maps = [affine_map<(d0, d1) -> (d0, d1)>, affine_map<(d0, d1) -> (d0, d1)>], iterator_types = ["parallel", "parallel"]} ins(%O : memref<4x4xi8, "L1">) outs(%c : memref<4x4xi8, "L1">) {
  ^bb0(%a : i8, %b : i8):
    linalg.yield %a : i8
  }
  func.return
}

// F-30: snax-opt -p accfg-trace-states,accfg-dedup
// The second setup of "simple" sits in the region of an op the state tracer knows nothing about. The tracer weaves the
// region separately but kept the outer state, so the third setup was threaded `from` the first one and dedup removed
// its field A = %A although the register holds %B after the region op.
func.func @nested(%A: i32, %B: i32) {
    %s1 = accfg.setup "simple" to ("A" = %A : i32) : !accfg.state<"simple">
    %t1 = "accfg.launch"(%s1) <{param_names = [], accelerator = "simple"}> : (!accfg.state<"simple">) -> !accfg.token<"simple">
    "accfg.await"(%t1) : (!accfg.token<"simple">) -> ()
    "test.op"() ({
        %s2 = accfg.setup "simple" to ("A" = %B : i32) : !accfg.state<"simple">
        %t2 = "accfg.launch"(%s2) <{param_names = [], accelerator = "simple"}> : (!accfg.state<"simple">) -> !accfg.token<"simple">
        "accfg.await"(%t2) : (!accfg.token<"simple">) -> ()
        "test.termop"() : () -> ()
    }) : () -> ()
    %s3 = accfg.setup "simple" to ("A" = %A : i32) : !accfg.state<"simple">
    %t3 = "accfg.launch"(%s3) <{param_names = [], accelerator = "simple"}> : (!accfg.state<"simple">) -> !accfg.token<"simple">
    "accfg.await"(%t3) : (!accfg.token<"simple">) -> ()
    return
}

func.func public @f(%x : index, %y : index) {
  %cst = arith.constant 0 : i5
  %lb = arith.constant 0 : index
  %ub = arith.constant 100 : index
  %step = arith.constant 1 : index
  %s0 = "accfg.setup"() <{"accelerator" = "acc", "operandSegmentSizes" = array<i32: 0, 0>, "param_names" = []}> : () -> !accfg.state<"acc">
  %r = scf.for %iv = %lb to %ub step %step iter_args(%st = %s0) -> (!accfg.state<"acc">) {
    %s1 = "accfg.setup"(%x, %iv, %st) <{"accelerator" = "acc", "operandSegmentSizes" = array<i32: 2, 1>, "param_names" = ["A", "B"]}> : (index, index, !accfg.state<"acc">) -> !accfg.state<"acc">
    %t1 = "accfg.launch"(%cst, %s1) <{"param_names" = ["launch"], "accelerator" = "acc"}> : (i5,!accfg.state<"acc">) -> !accfg.token<"acc">
    "accfg.await"(%t1) : (!accfg.token<"acc">) -> ()
    func.call @clobber() : () -> ()
    scf.yield %s1 : !accfg.state<"acc">
  }
  func.return
}
func.func private @clobber() -> ()

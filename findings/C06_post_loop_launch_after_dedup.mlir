func.func @f(%A : i32, %B : i32, %lb : i32, %ub : i32, %step : i32) {
  %c2 = arith.constant 2 : i32
  %s0 = accfg.setup "simple" to ("A" = %B : i32, "B" = %B : i32, "i" = %c2 : i32) : !accfg.state<"simple">
  %t0 = "accfg.launch"(%s0) <{param_names = [], accelerator = "simple"}> : (!accfg.state<"simple">) -> !accfg.token<"simple">
  "accfg.await"(%t0) : (!accfg.token<"simple">) -> ()
  %1 = scf.for %i = %lb to %ub step %step iter_args(%l0 = %s0) -> (!accfg.state<"simple">) : i32 {
    %i_plus_2 = arith.addi %i, %c2 : i32
    %l1 = accfg.setup "simple" from %l0 to ("A" = %A : i32, "B" = %A : i32, "i" = %i_plus_2 : i32) : !accfg.state<"simple">
    %t1 = "accfg.launch"(%l1) <{param_names = [], accelerator = "simple"}> : (!accfg.state<"simple">) -> !accfg.token<"simple">
    "accfg.await"(%t1) : (!accfg.token<"simple">) -> ()
    %i2 = arith.addi %i, %i : i32
    %l2 = accfg.setup "simple" from %l1 to ("A" = %B : i32, "B" = %B : i32, "i" = %i2 : i32) : !accfg.state<"simple">
    %t2 = "accfg.launch"(%l2) <{param_names = [], accelerator = "simple"}> : (!accfg.state<"simple">) -> !accfg.token<"simple">
    "accfg.await"(%t2) : (!accfg.token<"simple">) -> ()
    scf.yield %l2 : !accfg.state<"simple">
  }
  %s3 = accfg.setup "simple" from %1 to ("i" = %c2 : i32) : !accfg.state<"simple">
  %t3 = "accfg.launch"(%s3) <{param_names = [], accelerator = "simple"}> : (!accfg.state<"simple">) -> !accfg.token<"simple">
  "accfg.await"(%t3) : (!accfg.token<"simple">) -> ()
  func.return
}

func.func public @f(%A : memref<8xi32>, %o : memref<16xi32>, %O : memref<16xi32>) {
  %lo = memref.subview %o[0] [8] [1] : memref<16xi32> to memref<8xi32, strided<[1]>>
  "memref.copy"(%A, %lo) : (memref<8xi32>, memref<8xi32, strided<[1]>>) -> ()
  linalg.generic {indexing_maps = [affine_map<(d0) -> (d0)>, affine_map<(d0) -> (d0)>], iterator_types = ["parallel"]} ins(%o : memref<16xi32>) outs(%O : memref<16xi32>) {
  ^bb0(%a : i32, %b : i32):
    linalg.yield %a : i32
  }
  func.return
}

// F-35: snax-opt -p realize-memref-casts
// A chain L3 -> L1 -> L3 whose end has the type of its root: the shortcut for "no cast needed" replaced the uses of the last cast
// by its direct source (the L1 intermediate) instead of the root of the chain, so "test.op" received an L1 buffer where the
// program asks for the L3 value.
func.func public @roundtrip(%x : memref<64xi32, "L3">) {
  %a = "memref.memory_space_cast"(%x) : (memref<64xi32, "L3">) -> memref<64xi32, "L1">
  %b = "memref.memory_space_cast"(%a) : (memref<64xi32, "L1">) -> memref<64xi32, "L3">
  "test.op"(%b) : (memref<64xi32, "L3">) -> ()
  func.return
}

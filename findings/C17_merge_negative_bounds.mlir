func.func @f() {
  %c0 = arith.constant 0 : index
  %cm1 = arith.constant -1 : index
  %c1 = arith.constant 1 : index
  scf.for %i = %c0 to %cm1 step %c1 {
    scf.for %j = %c0 to %cm1 step %c1 {
      "test.op"(%i, %j) : (index, index) -> ()
    }
  }
  func.return
}

func.func public @f(%x : index, %c : i1) {
  %cst = arith.constant 0 : i5
  %lb = arith.constant 0 : index
  %ub = arith.constant 100 : index
  %step = arith.constant 1 : index
  %s0 = "accfg.setup"(%x) <{"accelerator" = "acc", "operandSegmentSizes" = array<i32: 1, 0>, "param_names" = ["A"]}> : (index) -> !accfg.state<"acc">
  %res = scf.for %iv = %lb to %ub step %step iter_args(%st = %s0) -> (!accfg.state<"acc">) {
    "scf.if"(%c) ({
      %t0 = "accfg.launch"(%cst, %st) <{"param_names" = ["launch"], "accelerator" = "acc"}> : (i5,!accfg.state<"acc">) -> !accfg.token<"acc">
      "accfg.await"(%t0) : (!accfg.token<"acc">) -> ()
      scf.yield
    }, {
      scf.yield
    }) : (i1) -> ()
    %s1 = "accfg.setup"(%iv, %st) <{"accelerator" = "acc", "operandSegmentSizes" = array<i32: 1, 1>, "param_names" = ["A"]}> : (index, !accfg.state<"acc">) -> !accfg.state<"acc">
    %t1 = "accfg.launch"(%cst, %s1) <{"param_names" = ["launch"], "accelerator" = "acc"}> : (i5,!accfg.state<"acc">) -> !accfg.token<"acc">
    "accfg.await"(%t1) : (!accfg.token<"acc">) -> ()
    scf.yield %s1 : !accfg.state<"acc">
  }
  func.return
}

"""Apply each mutant / twin of a property to a throw-away copy of the analysed tree (outside /repo
and /verif), run the property's rules on the copy in-process and compare with the expectation.

A mutant is (name, kind, relpath, old, new, expected_rules):
  kind 'mutant' -> the run must report at least one violation of one of expected_rules
  kind 'twin'   -> the run must report no violation and no analysis error
`old` must occur exactly once in the file, otherwise the case is recorded as "skipped: anchor absent"
(on an edited tree that is legitimate).  Special forms: old == "@patch:<diff under /verif>" applies a kept seeded change;
old == "@revert:<commit>" replaces the file by
its content at that commit of /repo's history (used to re-introduce repaired defects).
"""

from __future__ import annotations

import concurrent.futures as cf
import importlib
import io
import contextlib
import os
import shutil
import subprocess
import sys
import tempfile
from pathlib import Path

VERIF = Path(__file__).resolve().parent.parent


def _run_case(args):
    prop, repo_root, case = args
    name, kind, rel, old, new, expected = case
    tmp = Path(tempfile.mkdtemp(prefix="verif_selftest_"))
    try:
        dst = tmp / "snaxc"
        shutil.copytree(Path(repo_root) / "snaxc", dst, ignore=shutil.ignore_patterns("__pycache__"))
        rt = Path(repo_root) / "runtime"
        if rt.exists():
            shutil.copytree(rt, tmp / "runtime", ignore=shutil.ignore_patterns("__pycache__"))
        target = tmp / rel
        if not target.exists():
            return {"name": name, "kind": kind, "status": "skipped: anchor absent (file)"}
        src = target.read_text()
        if old.startswith("@patch:"):
            # a kept seeded change (unified diff relative to the repo root) as a mutant
            pf = VERIF / old.split(":", 1)[1]
            r = subprocess.run(f"patch -p1 -s --no-backup-if-mismatch < {pf}", shell=True, cwd=tmp, capture_output=True, text=True)
            if r.returncode != 0:
                return {"name": name, "kind": kind, "status": "skipped: anchor absent (patch does not apply)"}
            out = target.read_text()
        elif old.startswith("@revert:"):
            commit = old.split(":", 1)[1]
            r = subprocess.run(["git", "-C", repo_root, "show", f"{commit}:{rel}"], capture_output=True, text=True)
            if r.returncode != 0:
                return {"name": name, "kind": kind, "status": "skipped: anchor absent (commit)"}
            out = r.stdout
        else:
            if src.count(old) != 1:
                return {"name": name, "kind": kind, "status": "skipped: anchor absent"}
            out = src.replace(old, new)
        try:
            if rel.endswith(".py"):
                compile(out, rel, "exec")
        except SyntaxError as e:
            return {"name": name, "kind": kind, "status": f"broken-case: does not compile ({e})"}
        target.write_text(out)
        from sa.errors import AnalysisError
        from sa.model import Repo
        from sa.report import Check

        mod = importlib.import_module(f"rules.{prop.lower()}")
        chk = Check(prop, "selftest", str(tmp))
        err = None
        try:
            r_ = Repo(tmp)
            mod.run(r_, chk)
            from rules.common import cache_audit

            cache_audit(r_, chk, prop)
        except AnalysisError as e:
            err = str(e)
        except Exception as e:  # noqa
            err = f"internal: {type(e).__name__}: {e}"
        known = {(f["property"], f["rule"], f["key"]) for f in chk.known.get("findings", [])}
        bad = [i for i in chk.instances if not i.ok and (prop, i.rule, i.key) not in known]
        rules = sorted({i.rule for i in bad})
        if kind == "mutant":
            if any(r in expected for r in rules):
                status = "caught"
            elif err is not None:
                status = "analysis-error"  # fails closed, but does not name the construct
            else:
                status = "MISSED"
        else:
            status = "silent" if not bad and err is None else "FALSE-ALARM"
        return {"name": name, "kind": kind, "status": status, "rules": rules, "expected": list(expected),
                "error": err, "first": (f"{bad[0].where}: {bad[0].detail}"[:200] if bad else None)}
    finally:
        shutil.rmtree(tmp, ignore_errors=True)


def run(prop: str, repo_root: str, jobs: int = 16) -> list[dict]:
    from . import mutants

    cases = mutants.CASES.get(prop.upper(), [])
    if not cases:
        return []
    args = [(prop.upper(), repo_root, c) for c in cases]
    with cf.ProcessPoolExecutor(max_workers=min(jobs, len(args))) as ex:
        return list(ex.map(_run_case, args))


if __name__ == "__main__":
    import os

    if os.environ.get("PYTHONHASHSEED") != "0":  # same string hashing as the checks themselves (sa/main.py)
        os.environ["PYTHONHASHSEED"] = "0"
        os.execv(sys.executable, [sys.executable, "-m", "selftest.runner", *sys.argv[1:]])
    sys.path.insert(0, str(VERIF))
    props = sys.argv[1:] or None
    from selftest import mutants

    worst = 0
    for p in props or sorted(mutants.CASES):
        for r in run(p, os.environ.get("VERIF_REPO", "/repo")):
            flag = "" if r["status"] in ("caught", "silent") else "   <<<<<<"
            print(f"{p} {r['kind']:6s} {r['name']:45s} {r['status']:16s} {','.join(r.get('rules') or [])}{flag}")
            if flag:
                worst = 1
                if r.get("error"):
                    print("      error:", r["error"][:300])
                if r.get("first"):
                    print("      first:", r["first"])
    sys.exit(worst)

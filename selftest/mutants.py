"""Mutant / twin inventory per property (DESIGN.md section 7).  Text edits with a uniqueness check."""

TRACE = "snaxc/inference/trace_acc_state.py"
HELPERS = "snaxc/inference/helpers.py"
WEAVE = "snaxc/transforms/convert_linalg_to_accfg.py"
CANON = "snaxc/transforms/pipeline/pipeline_canonicalize_for.py"
REUSE = "snaxc/transforms/reuse_memref_allocs.py"

CASES: dict[str, list[tuple]] = {}

CASES["C07"] = [
    ("reintroduce F-1/F-1b (pre-fix infer_state_of)", "mutant", TRACE, "@revert:139cd1d", "", ["C07.loop-head", "C07.loop-result"]),
    ("reintroduce F-2/F-3 (pre-fix weave)", "mutant", WEAVE, "@revert:139cd1d", "", ["C07.weave-kill"]),
    ("loop-head: drop effects guard", "mutant", TRACE,
     "                    if has_accfg_effects(for_op):\n                        return {}\n", "", ["C07.loop-head"]),
    ("loop-head: drop body scan", "mutant", TRACE,
     "                            if name in state and state[name] != val:\n                                del state[name]\n",
     "                            pass\n", ["C07.loop-head"]),
    ("loop-result: yield only", "mutant", TRACE,
     "return state_intersection(infer_state_of(yield_op.operands[idx]), infer_state_of(for_op.iter_args[idx]))",
     "return infer_state_of(yield_op.operands[idx])", ["C07.loop-result"]),
    ("loop-result: init only", "mutant", TRACE,
     "return state_intersection(infer_state_of(yield_op.operands[idx]), infer_state_of(for_op.iter_args[idx]))",
     "return infer_state_of(for_op.iter_args[idx])", ["C07.loop-result"]),
    ("intersection -> keys only", "mutant", TRACE, "if a[k] == b.get(k)}", "if k in b}", ["C07.intersection"]),
    ("intersection -> union", "mutant", TRACE, "return {k: a[k] for k in a if a[k] == b.get(k)}", "return {**b, **a}", ["C07.intersection"]),
    ("setup-chain: reversed update", "mutant", TRACE,
     "            in_state = infer_state_of(st)\n            in_state.update(dict(setup_op.iter_params()))\n            return in_state\n",
     "            in_state = infer_state_of(st)\n            own = dict(setup_op.iter_params())\n            own.update(in_state)\n            return own\n",
     ["C07.setup-chain"]),
    ("if-merge: first region only", "mutant", TRACE,
     "return state_intersection(*infer_states_for_if(if_op, state_var))", "return infer_states_for_if(if_op, state_var)[0]", ["C07.if-merge"]),
    ("loop-head: last-writer-wins accumulation", "mutant", TRACE,
     "                        for name, val in setup.items():\n                            if name in state and state[name] != val:\n                                del state[name]\n                    return state\n",
     "                        written: dict = {}\n                        written.update(setup)\n                    return {name: val for name, val in state.items() if written.get(name, val) == val}\n", ["C07.loop-head", "internal"]),
    ("all_setup_ops_in_region: top level only", "mutant", TRACE, "    for op in region.walk():\n        if isinstance(op, accfg.SetupOp):", "    for op in region.ops:\n        if isinstance(op, accfg.SetupOp):", ["C07.all-setups"]),
    ("effects: local callee body inspected instead", "mutant", HELPERS, "    if isinstance(op, func.CallOp | llvm.CallOp):\n        return True\n",
     "    if isinstance(op, func.CallOp):\n        return bool(op.attributes.get('external', None))\n    if isinstance(op, llvm.CallOp):\n        return True\n", ["C07.effects-table"]),
    ("effects: llvm.CallOp removed", "mutant", HELPERS, "isinstance(op, func.CallOp | llvm.CallOp)", "isinstance(op, func.CallOp)", ["C07.effects-table"]),
    ("effects: polarity flipped", "mutant", HELPERS, "return effects_attr.data != accfg.EffectsEnum.NONE", "return effects_attr.data == accfg.EffectsEnum.NONE", ["C07.effects-table"]),
    ("effects: recursion removed", "mutant", HELPERS,
     "    if any(has_accfg_effects(op) for region in op.regions for block in region.blocks for op in block.ops):\n        return True\n", "", ["C07.effects-table"]),
    ("weave: fallback clear removed", "mutant", WEAVE,
     "                elif has_accfg_effects(op):\n                    state.clear()\n", "                elif has_accfg_effects(op):\n                    pass\n", ["C07.weave-kill"]),
    ("weave: for-loop early continue without clear", "mutant", WEAVE,
     "                        if has_accfg_effects(op):\n                            state.clear()\n                        continue\n",
     "                        continue\n", ["C07.weave-kill"]),
    ("weave: if-branch deletion loop removed", "mutant", WEAVE,
     "                    for accel in [k for k in state if k not in if_state or k not in else_state]:\n                        del state[accel]\n", "", ["C07.weave-kill"]),
    ("weave: relink to op.in_state", "mutant", WEAVE,
     "                            op.accelerator,\n                            state.get(accel),\n", "                            op.accelerator,\n                            op.in_state,\n", ["C07.weave-link"]),
    ("weave: out_state recorded only when relinked", "mutant", WEAVE,
     "                        op = new_op\n                    state[accel] = op.out_state\n", "                        op = new_op\n                        state[accel] = op.out_state\n", ["C07.weave-link"]),
    # twins
    ("twin: intersection spelled with `k in b and`", "twin", TRACE, "if a[k] == b.get(k)}", "if k in b and a[k] == b[k]}", []),
    ("twin: rename locals in loop-head case", "twin", TRACE,
     "                    state = infer_state_of(for_op.iter_args[state_var.index - 1])",
     "                    init_idx = state_var.index - 1\n                    state = infer_state_of(for_op.iter_args[init_idx])", []),
    ("twin: effects test spelled with tuple", "twin", HELPERS, "isinstance(op, func.CallOp | llvm.CallOp)", "isinstance(op, (llvm.CallOp, func.CallOp))", []),
    ("twin: setup-chain with dict union", "twin", TRACE,
     "            in_state = infer_state_of(st)\n            in_state.update(dict(setup_op.iter_params()))\n            return in_state\n",
     "            return infer_state_of(st) | dict(setup_op.iter_params())\n", []),
]

CASES["C17"] = [
    ("reintroduce F-10 (ub // step)", "mutant", CANON, "-(-ub // step)", "ub // step", ["C17.trip-count"]),
    ("drop lb != 0 test of ChangeForStep", "mutant", CANON, "        # lb must be 0\n        if lb != 0:\n            return\n", "", ["C17.step-guards"]),
    ("drop iter_args test", "mutant", CANON, "        if len(op.iter_args) != 0:\n            return\n", "", ["C17.step-guards"]),
    ("iv = lb * j", "mutant", CANON, "new_iter_var = MuliOp(op.step, new_for.body.block.args[0])", "new_iter_var = MuliOp(op.ub, new_for.body.block.args[0])", ["C17.step-iv"]),
    ("merge: drop step tests", "mutant", CANON, "if lb != 0 or lb_parent != 0 or step != 1 or step_parent != 1:", "if lb != 0 or lb_parent != 0:", ["C17.merge-guards"]),
    ("merge: drop parent lb test", "mutant", CANON, "if lb != 0 or lb_parent != 0 or step != 1 or step_parent != 1:", "if lb != 0 or step != 1 or step_parent != 1:", ["C17.merge-guards"]),
    ("merge: divisor is parent ub", "mutant", CANON, "div_val = ConstantOp.from_int_and_width(ub, IndexType())", "div_val = ConstantOp.from_int_and_width(ub_parent, IndexType())", ["C17.merge-values"]),
    ("merge: outer gets remainder", "mutant", CANON, "new_parent_iter = DivUIOp(new_parent.body.block.args[0], div_val)", "new_parent_iter = RemUIOp(new_parent.body.block.args[0], div_val)", ["C17.merge-values"]),
    ("merge: new ub = ub + ub_parent", "mutant", CANON, "from_int_and_width(ub * ub_parent, IndexType())", "from_int_and_width(ub + ub_parent, IndexType())", ["C17.merge-values"]),
    ("hoist: without defined_outside_loop", "mutant", REUSE, "                    defined_outside_loop(op),\n", "", ["C17.hoist"]),
    ("hoist: purity test dropped", "mutant", REUSE, "                    Pure() in op.traits or is_whitelisted(main_op),\n", "", ["C17.hoist"]),
    ("hoist: block arguments accepted", "mutant", REUSE, "        if isinstance(operand.owner, Block):\n            return False\n        elif find_parent_for_loop", "        if isinstance(operand.owner, Block):\n            continue\n        elif find_parent_for_loop", ["C17.hoist"]),
    ("dims: users test dropped", "mutant", REUSE, "                    not used_by_neither_alloc_nor_subview(dim_op),\n", "", ["C17.dims"]),
    ("dims: sizes indexed by dim", "mutant", REUSE, "return subview.sizes[magic_numbers]", "return subview.sizes[index]", ["C17.dim-operand"]),
    # twins
    ("twin: ceil spelled (ub + step - 1) // step", "twin", CANON, "-(-ub // step)", "(ub + step - 1) // step", []),
    ("twin: lb test spelled `not lb == 0`", "twin", CANON, "        if lb != 0:\n            return\n", "        if not lb == 0:\n            return\n", []),
    ("twin: guard extracted into helper", "twin", CANON,
     "        if lb != 0 or lb_parent != 0 or step != 1 or step_parent != 1:\n            return\n",
     "        def normal(l: int, s: int) -> bool:\n            return l == 0 and s == 1\n\n        if not normal(lb, step) or not normal(lb_parent, step_parent):\n            return\n", []),
    ("twin: can_move_operation as plain conjunction", "twin", REUSE,
     "            if all(\n                [\n                    is_in_loop(op),\n                    defined_outside_loop(op),\n                    Pure() in op.traits or is_whitelisted(main_op),\n                    not isinstance(op, scf.YieldOp),\n                ]\n            ):\n                return True\n            return False\n",
     "            return (\n                is_in_loop(op)\n                and defined_outside_loop(op)\n                and (Pure() in op.traits or is_whitelisted(main_op))\n                and not isinstance(op, scf.YieldOp)\n            )\n", []),
]

DEDUP = "snaxc/transforms/accfg_dedup.py"
ACCFG = "snaxc/dialects/accfg.py"

CASES["C01"] = [
    ("simplify: drop any field ever set", "mutant", DEDUP, "if prev_state.get(name) != val", "if name not in prev_state", ["C01.simplify"]),
    ("simplify: state of out_state", "mutant", DEDUP, "prev_state = infer_state_of(op.in_state) if op.in_state else {}", "prev_state = infer_state_of(op.out_state) if op.in_state else {}", ["C01.simplify"]),
    ("simplify: replacement loses in_state", "mutant", DEDUP, "                op.accelerator,\n                op.in_state,\n            ),\n        )\n\n\nclass MergeSetupOps", "                op.accelerator,\n                None,\n            ),\n        )\n\n\nclass MergeSetupOps", ["C01.simplify"]),
    ("merge: purity abort deleted", "mutant", DEDUP, "            if not is_side_effect_free(prev_op):\n                return\n", "", ["C01.merge"]),
    ("merge: same-accelerator test dropped", "mutant", DEDUP, "if isinstance(prev_op, accfg.SetupOp) and prev_op.accelerator == op.accelerator:", "if isinstance(prev_op, accfg.SetupOp):", ["C01.merge"]),
    ("merge: later updated by earlier", "mutant", DEDUP, "        state = dict(prev_op.iter_params())\n        state.update(dict(op.iter_params()))\n", "        state = dict(op.iter_params())\n        state.update(dict(prev_op.iter_params()))\n", ["C01.merge"]),
    ("merge: keeps op.in_state", "mutant", DEDUP, "accfg.SetupOp(state.values(), state.keys(), op.accelerator, prev_op.in_state)", "accfg.SetupOp(state.values(), state.keys(), op.accelerator, op.in_state)", ["C01.merge"]),
    ("elide: in_state test dropped", "mutant", DEDUP, "if len(op.values) == 0 and op.in_state is not None:", "if len(op.values) == 0:", ["C01.elide"]),
    ("elide: values test dropped", "mutant", DEDUP, "if len(op.values) == 0 and op.in_state is not None:", "if op.in_state is not None:", ["C01.elide"]),
    ("pull: defined-in-block arm deleted", "mutant", DEDUP,
     "                if val_is_defined_in_block(val, loop_op.body.block):\n                    unsafe_vals.add(key)\n                # and also if it changes at any point in the loop\n                elif key in",
     "                if key in", ["C01.pull"]),
    ("pull: two-values arm deleted", "mutant", DEDUP,
     "                elif key in acc_fields_to_values and acc_fields_to_values[key] != val:\n                    unsafe_vals.add(key)\n", "", ["C01.pull"]),
    ("pull: block-argument test flipped", "mutant", DEDUP, "if op.in_state is None or op.in_state.owner != loop_op.body.block:", "if op.in_state is None:", ["C01.pull"]),
    ("pull: no subtraction", "mutant", DEDUP, "tuple(sorted(safe_values - unsafe_vals))", "tuple(sorted(safe_values))", ["C01.pull"]),
    ("pull: only top-level setups scanned", "mutant", DEDUP, "for setup in all_setup_ops_in_region(loop_op.body, op.accelerator.data):",
     "for setup in (dict(o.iter_params()) for o in loop_op.body.block.ops if isinstance(o, accfg.SetupOp)):", ["C01.pull"]),
    ("hoist-if: launch index test deleted", "mutant", DEDUP,
     "            if block.get_operation_index(launch_op) < block.get_operation_index(op):\n                return\n", "", ["C01.hoist-if"]),
    ("hoist-if: launch index test flipped", "mutant", DEDUP, "if block.get_operation_index(launch_op) < block.get_operation_index(op):", "if block.get_operation_index(launch_op) > block.get_operation_index(op):", ["C01.hoist-if"]),
    ("hoist-if: same-block test deleted", "mutant", DEDUP, "            if launch_op.parent_block() is not op.parent_block():\n                return\n", "", ["C01.hoist-if"]),
    ("hoist-if: yield index 0", "mutant", DEDUP, "new_in_state = yield_op.operands[old_in_state.index]", "new_in_state = yield_op.operands[0]", ["C01.hoist-if"]),
    ("hoist-if: same-block-as-if guard deleted (F-19)", "mutant", DEDUP,
     "        if op.parent_block() is not op.in_state.owner.parent_block():\n            return\n", "", ["C01.hoist-if"]),
    ("hoist-if: value availability guard deleted (F-21)", "mutant", DEDUP,
     "            if (\n                isinstance(val, OpResult)\n                and val.op.parent_block() is block\n                and block.get_operation_index(val.op) >= if_index\n            ):\n                return\n", "            pass\n", ["C01.hoist-if"]),
    ("pull: effects guard deleted (F-18)", "mutant", DEDUP, "        if has_accfg_effects(loop_op):\n            return\n", "", ["C01.pull"]),
    ("all_setup_ops_in_region: top level only", "mutant", TRACE, "    for op in region.walk():\n        if isinstance(op, accfg.SetupOp):", "    for op in region.ops:\n        if isinstance(op, accfg.SetupOp):", ["C01.all-setups"]),
    ("all_setup_ops_in_region: accelerator filter dropped", "mutant", TRACE, "            if op.accelerator.data != accel:\n                continue\n", "", ["C01.all-setups"]),
    ("effects: LaunchOp declared Pure", "mutant", ACCFG, '    name = "accfg.launch"\n', '    name = "accfg.launch"\n\n    traits = traits_def(Pure())\n', ["C01.effects"]),
    ("state inference: F-1 reintroduced", "mutant", TRACE, "@revert:139cd1d", "", ["C01.state-soundness"]),
    # twins
    ("twin: filter spelled with not-in", "twin", DEDUP, "if prev_state.get(name) != val", "if name not in prev_state or prev_state[name] != val", []),
    ("twin: elide spelled with truthiness", "twin", DEDUP, "if len(op.values) == 0 and op.in_state is not None:", "if not op.values and op.in_state is not None:", []),
    ("twin: merge map via dict union", "twin", DEDUP, "        state = dict(prev_op.iter_params())\n        state.update(dict(op.iter_params()))\n", "        state = dict(prev_op.iter_params()) | dict(op.iter_params())\n", []),
    ("twin: hoist-if positions in locals", "twin", DEDUP, "            if block.get_operation_index(launch_op) < block.get_operation_index(op):\n                return\n",
     "            launch_pos = block.get_operation_index(launch_op)\n            own_pos = block.get_operation_index(op)\n            if not launch_pos >= own_pos:\n                return\n", []),
]

OVERLAP = "snaxc/transforms/accfg_config_overlap.py"
SCOPED = "snaxc/inference/scoped_setups.py"

CASES["C06"] = [
    ("block: != 2 -> < 2", "mutant", OVERLAP, "if len(ops_uses) != 2:", "if len(ops_uses) < 2:", ["C06.block-guards"]),
    ("block: same-block test deleted", "mutant", OVERLAP, "        if launch.parent_block() != op.parent_block():\n            return\n", "", ["C06.block-guards"]),
    ("block: other user not required to be a launch", "mutant", OVERLAP, "if op1 == op and isinstance(op2, accfg.LaunchOp):", "if op1 == op:", ["C06.block-guards"]),
    ("block: unresolved closure ignored", "mutant", OVERLAP, "        if inputs is None:\n            return\n\n        # if all the ops", "        # if all the ops", ["C06.block-guards"]),
    ("uses: only same-block users counted", "mutant", OVERLAP, "return tuple(set(use.operation for use in uses))", "return tuple(set(use.operation for use in uses if use.operation.parent_block() is not None and use.index >= 0 and not use.operation.regions))", ["C06.uses"]),
    ("loop: launch-before abort deleted (both)", "mutant", OVERLAP,
     "        if any(isinstance(prev_op, accfg.LaunchOp) for prev_op in previous_ops_of(op)):\n            return\n        # the same holds for launches nested inside preceding ops: they launch the loop-carried state itself\n        if any(isinstance(use.operation, accfg.LaunchOp) for use in op.in_state.uses):\n            return\n", "", ["C06.loop-guards"]),
    ("loop: reintroduce F-17 (top-level launches only)", "mutant", OVERLAP,
     "        # the same holds for launches nested inside preceding ops: they launch the loop-carried state itself\n        if any(isinstance(use.operation, accfg.LaunchOp) for use in op.in_state.uses):\n            return\n", "", ["C06.loop-guards"]),
    ("loop: block-arg-of-this-loop test dropped", "mutant", OVERLAP, "if not isinstance(op.in_state.owner, Block) or op.in_state.owner.parent_op() is not for_op:", "if not isinstance(op.in_state.owner, Block):", ["C06.loop-guards"]),
    ("loop: launches-same-block dropped", "mutant", OVERLAP,
     "        if not all(\n            launch.operation.parent_block() is op.parent_block()\n            for launch in filter(lambda x: isinstance(x.operation, accfg.LaunchOp), op.out_state.uses)\n        ):\n            return\n", "", ["C06.loop-guards"]),
    ("loop: prologue from ub", "mutant", OVERLAP, "copy_with_new_dependent_vals((for_op.lb, *for_op.iter_args))", "copy_with_new_dependent_vals((for_op.ub, *for_op.iter_args))", ["C06.loop-substitution"]),
    ("loop: next iteration = iv + lb", "mutant", OVERLAP, "arith.AddiOp(for_op.body.block.args[0], for_op.step)", "arith.AddiOp(for_op.body.block.args[0], for_op.lb)", ["C06.loop-substitution"]),
    ("loop: in-loop copy uses plain iv", "mutant", OVERLAP, "copy_with_new_dependent_vals((next_i.result, *yield_op.operands))", "copy_with_new_dependent_vals((for_op.body.block.args[0], *yield_op.operands))", ["C06.loop-substitution"]),
    ("loop: yield operand off by one", "mutant", OVERLAP, "yield_op.operands[iter_arg_idx] = setup_at_end.setup.out_state", "yield_op.operands[iter_arg_idx + 1] = setup_at_end.setup.out_state", ["C06.loop-substitution"]),
    ("loop: init operand takes in-loop copy", "mutant", OVERLAP, "for_op.operands[3 + iter_arg_idx] = setup_before.setup.out_state", "for_op.operands[3 + iter_arg_idx] = op.out_state", ["C06.loop-substitution"]),
    ("loop: in-loop copy substitutes iter_args", "mutant", OVERLAP, "copy_with_new_dependent_vals((next_i.result, *yield_op.operands))", "copy_with_new_dependent_vals((next_i.result, *for_op.iter_args))", ["C06.loop-substitution"]),
    ("closure: purity branch accepts everything", "mutant", SCOPED, "            if is_side_effect_free(val.owner):\n                if val.owner in inputs:", "            if True:\n                if val.owner in inputs:", ["C06.closure-pure"]),
    ("closure: operands not followed", "mutant", SCOPED, "                vals_to_inspect.extend(val.owner.operands)\n", "", ["C06.closure-pure"]),
    ("closure: unsorted", "mutant", SCOPED, "inputs_tuple = tuple(sorted(inputs, key=lambda op: positions[op]))", "inputs_tuple = tuple(inputs)", ["C06.closure-pure"]),
    ("move: condition flipped", "mutant", SCOPED, "            if idx <= insertion_point_position:\n                continue\n", "            if idx >= insertion_point_position:\n                continue\n", ["C06.move-up-only"]),
    ("clone: mapping after the loop", "mutant", SCOPED,
     "            for old, new in zip(op.results, new_op.results):\n                mapper[old] = new\n            ops.append(new_op)\n",
     "            ops.append(new_op)\n        for op, new_op in zip(self.inputs, ops):\n            for old, new in zip(op.results, new_op.results):\n                mapper[old] = new\n", ["C06.clone-order"]),
    ("clone: non-strict zip", "mutant", SCOPED, "dict(zip(self.dependent_vars, new_dependent_vars, strict=True))", "dict(zip(self.dependent_vars, new_dependent_vars))", ["C06.clone-order"]),
    # twins
    ("twin: two-users test via local", "twin", OVERLAP, "        if len(ops_uses) != 2:\n            return\n", "        n_users = len(ops_uses)\n        if not n_users == 2:\n            return\n", []),
    ("twin: loop guard order swapped", "twin", OVERLAP,
     "        if any(isinstance(prev_op, accfg.LaunchOp) for prev_op in previous_ops_of(op)):\n            return\n        # the same holds for launches nested inside preceding ops: they launch the loop-carried state itself\n        if any(isinstance(use.operation, accfg.LaunchOp) for use in op.in_state.uses):\n            return\n",
     "        if any(isinstance(use.operation, accfg.LaunchOp) for use in op.in_state.uses):\n            return\n", []),
    ("twin: AddiOp operands swapped", "twin", OVERLAP, "arith.AddiOp(for_op.body.block.args[0], for_op.step)", "arith.AddiOp(for_op.step, for_op.body.block.args[0])", []),
    ("twin: move-up condition as positive if", "twin", SCOPED, "            if idx <= insertion_point_position:\n                continue\n            op.detach()\n            rewriter.insert_op(op, pt)\n",
     "            if idx > insertion_point_position:\n                op.detach()\n                rewriter.insert_op(op, pt)\n", []),
]

AP = "snaxc/ir/dart/access_pattern.py"
SCHED = "snaxc/ir/dart/scheduler.py"
DSCHED = "snaxc/transforms/dart/dart_scheduler.py"

CASES["C03"] = [
    ("div guard arm deleted", "mutant", SCHED, "            elif schedule_bound % template_bound != 0:\n                # TODO: imperfect factorization\n                continue\n", "", ["C03.div-guard"]),
    ("div guard tests another dim", "mutant", SCHED, "schedule_bound = candidate_schedule[0].bounds[-inner_dims]", "schedule_bound = candidate_schedule[0].bounds[-1]", ["C03.div-guard"]),
    ("rotate: columns only", "mutant", AP, "new_bounds = self.bounds[1:dim] + self.bounds[:1] + self.bounds[dim:]", "new_bounds = self.bounds[:1] + self.bounds[1:dim] + self.bounds[dim:]", ["C03.rotate"]),
    ("rotate: a dimension dropped", "mutant", AP, "new_a = self.pattern.A[:, [*range(1, dim), 0, *range(dim, self.num_dims)]]", "new_a = self.pattern.A[:, [*range(1, dim), 0, *range(dim + 1, self.num_dims)]]", ["C03.rotate"]),
    ("tile: outer multiplied by tiled_bound", "mutant", AP, "+ (AffineDimExpr(dim) * template_bound + AffineDimExpr(dim + 1),)", "+ (AffineDimExpr(dim) * (self.bounds[dim] // template_bound) + AffineDimExpr(dim + 1),)", ["C03.tile-factor"]),
    ("tile: bounds swapped", "mutant", AP, "new_bounds = self.bounds[:dim] + (tiled_bound, template_bound) + self.bounds[dim + 1 :]", "new_bounds = self.bounds[:dim] + (template_bound, tiled_bound) + self.bounds[dim + 1 :]", ["C03.tile-factor"]),
    ("tile: suffix not shifted", "mutant", AP, "+ tuple(AffineDimExpr(i + 1) for i in range(dim + 1, self.num_dims)),", "+ tuple(AffineDimExpr(i) for i in range(dim + 1, self.num_dims)),", ["C03.tile-factor"]),
    ("add_dim: bound 2", "mutant", AP, "new_bounds = (1,) + self.bounds", "new_bounds = (2,) + self.bounds", ["C03.add-dim"]),
    ("canonicalize: different predicates", "mutant", AP, "bounds = [bound for bound in self.bounds if bound != 1]", "bounds = [bound for bound in self.bounds if bound is None or bound > 2]", ["C03.drop-unit"]),
    ("clear_unused_dims: drops bound 2 as well", "mutant", AP,
     "        used_dims = tuple(i for i, bound in enumerate(pattern_bounds) if bound != 1)\n        return type(self)(\n            type(self._patterns[0])(\n                tuple(bound for bound in pattern_bounds if bound != 1),",
     "        used_dims = tuple(i for i, bound in enumerate(pattern_bounds) if bound > 2)\n        return type(self)(\n            type(self._patterns[0])(\n                tuple(bound for bound in pattern_bounds if bound > 2),", ["C03.drop-unit"]),
    ("Schedule.tile_dim applies another factor", "mutant", AP, "return type(self)(sp.tile_dim(dim, template_bound) for sp in self)", "return type(self)(sp.tile_dim(dim, template_bound + 0 * dim) for sp in self)", ["C03.collection"]),
    ("pass: first pattern only", "mutant", DSCHED, "Schedule(SchedulePattern(schedule_bounds, pattern.data) for pattern in op.patterns.data)", "Schedule(SchedulePattern(schedule_bounds, pattern.data) for pattern in op.patterns.data[:1])", ["C03.schedule-from-op"]),
    ("pass: bounds of another schedule", "mutant", DSCHED, "            schedule[0].bounds,\n            [[]],", "            schedule_bounds,\n            [[]],", ["C03.schedule-from-op"]),
    ("twin: guard as assert-free positive branch", "twin", SCHED,
     "            elif schedule_bound % template_bound != 0:\n                # TODO: imperfect factorization\n                continue\n            else:\n                # tile schedule\n                candidate_schedule = candidate_schedule.tile_dim(schedule.num_dims - inner_dims, template_bound)\n",
     "            elif schedule_bound % template_bound == 0:\n                # tile schedule\n                candidate_schedule = candidate_schedule.tile_dim(schedule.num_dims - inner_dims, template_bound)\n            else:\n                continue\n", []),
    ("twin: rotate via local N", "twin", AP, "new_a = self.pattern.A[:, [*range(1, dim), 0, *range(dim, self.num_dims)]]", "new_a = self.pattern.A[:, [*range(1, dim), 0, *range(dim, len(self.bounds))]]", []),
]

CASES["C16"] = [
    ("template-mismatch continue deleted", "mutant", SCHED, "        if not template_check.matches(schedule_check):\n            # not possible, consider next option\n            continue\n", "", ["C16.accept-path"]),
    ("all -> any for extra checks", "mutant", SCHED, "if not all(check(template_check, schedule_check) for check in extra_checks):", "if not any(check(template_check, schedule_check) for check in extra_checks):", ["C16.accept-path"]),
    ("bound check: >= accepted untiled", "mutant", SCHED, "            if schedule_bound <= template_bound:\n                pass\n", "            if schedule_bound >= template_bound:\n                pass\n", ["C16.accept-path"]),
    ("tiling by the schedule bound", "mutant", SCHED, "candidate_schedule.tile_dim(schedule.num_dims - inner_dims, template_bound)", "candidate_schedule.tile_dim(schedule.num_dims - inner_dims, 2)", ["C16.accept-path", "C03.div-guard"]),
    ("terminal yield one dim early", "mutant", SCHED, "    if inner_dims > schedule.num_dims:\n        yield schedule\n", "    if inner_dims >= schedule.num_dims:\n        yield schedule\n", ["C16.accept-path"]),
    ("recursion drops the checks", "mutant", SCHED, "yield from scheduler_backtrack(template, candidate_schedule, inner_dims + 1, extra_checks)", "yield from scheduler_backtrack(template, candidate_schedule, inner_dims + 1)", ["C16.accept-path"]),
    ("Template.matches: arity test dropped", "mutant", AP, "        if len(schedule) != len(self):\n            return False\n", "", ["C16.template-arity"]),
    ("Template.matches: first mismatch ignored", "mutant", AP, "            if not tp.matches(sp):\n                return False\n        return True", "            if tp.matches(sp):\n                return True\n        return False", ["C16.template-arity"]),
    ("pass: memory check dropped", "mutant", DSCHED, "                lambda t, s: is_memory_flexible_enough(t, s, element_sizes),\n", "", ["C16.wiring"]),
    ("flexibility: unpaired reductions", "mutant", SCHED, "if (False, True) not in zip(temporal, spatial):", "if temporal.all() or not spatial.any():", ["C16.flexibility"]),
    ("scheduler(): unconstrained search", "mutant", SCHED, "    result = next(scheduler_backtrack(template, schedule, extra_checks=extra_checks))", "    result = next(scheduler_backtrack(template, schedule, extra_checks=[]))", ["C16.select"]),
    ("twin: flexibility vectorised", "twin", SCHED, "if (False, True) not in zip(temporal, spatial):", "if not (~temporal & spatial).any():", []),
    ("twin: Template.matches via all()", "twin", AP, "        for sp, tp in zip(schedule, self):\n            if not tp.matches(sp):\n                return False\n        return True", "        return all(tp.matches(sp) for sp, tp in zip(schedule, self))", []),
]

TSTRIDE = "snaxc/ir/tsl/tiled_stride.py"
TSLL = "snaxc/ir/tsl/tiled_strided_layout.py"
TSLD = "snaxc/dialects/tsl.py"
TSLP = "snaxc/parser/tsl_parser.py"

CASES["C10"] = [
    ("reintroduce F-8 (offset parsed as integer)", "mutant", TSLP, "offset = self._parse_int_or_question()", "offset = self.parse_integer()", ["C10.nullable-token"]),
    ("offset not printed", "mutant", TSLL, "        if self.offset != 0:\n            offset_str = str(self.offset) if self.offset is not None else \"?\"\n            result += f\", offset: {offset_str}\"\n", "", ["C10.roundtrip-fields", "internal"]),
    ("parser drops the offset", "mutant", TSLP, "return TiledStridedLayout(tstrides, offset=offset)", "return TiledStridedLayout(tstrides)", ["C10.roundtrip-fields"]),
    ("parser: Stride(bound, step)", "mutant", TSLP, "TiledStride([Stride(step, bound) for step, bound in zip(steps, bounds)])", "TiledStride([Stride(bound, step) for step, bound in zip(steps, bounds)])", ["C10.roundtrip-fields"]),
    ("parser: arity check dropped", "mutant", TSLP, "        if len(steps) != len(bounds):\n            raise ParseError(self._current_token.span, \"Expected same number of steps and bounds\")\n", "", ["C10.arity"]),
    ("printer: steps in brackets", "mutant", TSTRIDE, 'return f"[{bounds}] -> ({strides})"', 'return f"[{strides}] -> ({bounds})"', ["C10.arity"]),
    ("affine map: modulus = own bound", "mutant", TSLD, "mod = prod([stride.bound for stride in strides[depth:] if stride.bound])", "mod = prod([stride.bound for stride in strides[depth : depth + 1] if stride.bound])", ["C10.affine-digits", "internal"]),
    ("affine map: divisor includes own level", "mutant", TSLD, "fdiv = prod([stride.bound for stride in strides[depth + 1 :] if stride.bound])", "fdiv = prod([stride.bound for stride in strides[depth:] if stride.bound])", ["C10.affine-digits"]),
    ("affine map: step of depth 0", "mutant", TSLD, "assert (step := self.data.get_stride(dim, depth).step)", "assert (step := self.data.get_stride(dim, 0).step)", ["C10.affine-digits"]),
    ("affine map: no mod for inner levels", "mutant", TSLD, "                if depth > 0:\n                    result += step * ((AffineDimExpr(dim) % mod) // fdiv)\n                else:\n                    result += step * (AffineDimExpr(dim) // fdiv)\n", "                result += step * (AffineDimExpr(dim) // fdiv)\n", ["C10.affine-digits"]),
    ("from_stride: additive chain", "mutant", TSTRIDE, "steps = [bound * steps[0] if bound and steps[0] else None, *steps]", "steps = [bound + steps[0] if bound and steps[0] else None, *steps]", ["C10.from-stride"]),
    ("from_stride: iterates all bounds", "mutant", TSTRIDE, "for bound in reversed(tile_bounds[1:]):", "for bound in reversed(tile_bounds[:-1]):", ["C10.from-stride"]),
    ("canonicalize: merge without step test", "mutant", TSTRIDE, "                and prev_stride.step * prev_stride.bound == stride.step\n", "", ["C10.canon"]),
    ("canonicalize: drops bound 2", "mutant", TSTRIDE, "            if stride.bound == 1:\n                # strides with a bound of 0 are useless\n                continue\n", "            if stride.bound == 1 or stride.bound == 2:\n                continue\n", ["C10.canon"]),
    ("canonicalize: merged keeps outer step", "mutant", TSTRIDE, "strides[0] = Stride(prev_stride.step, prev_stride.bound * stride.bound)", "strides[0] = Stride(stride.step, prev_stride.bound * stride.bound)", ["C10.canon"]),
    ("lccb: equality with other dropped", "mutant", TSLL, "            if stride_self == stride_other:\n                result.append(stride_self)", "            if stride_self.bound == stride_other.bound:\n                result.append(stride_self)", ["C10.lccb"]),
    ("lccb: extent = step", "mutant", TSLL, "current_stride = stride_self.step * stride_self.bound", "current_stride = stride_self.step", ["C10.lccb"]),
    ("step ops: bytes scaling dropped", "mutant", TSLD, "step_op = ConstantOp.from_int_and_width(stride.step * el_bytes, IndexType())", "step_op = ConstantOp.from_int_and_width(stride.step, IndexType())", ["C10.view-coverage"]),
    ("twin: canonicalize condition reordered", "twin", TSTRIDE,
     "                prev_stride.step\n                and prev_stride.bound\n                and prev_stride.step * prev_stride.bound == stride.step\n                and stride.bound\n",
     "                stride.bound\n                and prev_stride.step\n                and prev_stride.bound\n                and stride.step == prev_stride.step * prev_stride.bound\n", []),
    ("twin: affine map term with commuted product", "twin", TSLD, "result += step * ((AffineDimExpr(dim) % mod) // fdiv)", "result += ((AffineDimExpr(dim) % mod) // fdiv) * step", []),
]

M2S = "snaxc/transforms/memref_to_snax.py"
SALLOC = "snaxc/transforms/snax_allocate.py"

CASES["C11"] = [
    ("bump: store of the bump pointer deleted", "mutant", SALLOC, "        self.current_addresses[memory] = next_address\n", "", ["C11.bump", "internal"]),
    ("bump: capacity raise deleted", "mutant", SALLOC, "        if next_address > memory.start + memory.capacity:\n            raise RuntimeError(f\"Memory space {memory.attribute.data} is full, cannot allocate {size} bytes\")\n", "", ["C11.bump"]),
    ("bump: capacity check before alignment", "mutant", SALLOC,
     "        if current_address % alignment != 0:\n            # align the address\n            current_address += alignment - (current_address % alignment)\n\n        next_address = current_address + size\n\n        if next_address > memory.start + memory.capacity:\n            raise RuntimeError(f\"Memory space {memory.attribute.data} is full, cannot allocate {size} bytes\")\n",
     "        if current_address + size > memory.start + memory.capacity:\n            raise RuntimeError(f\"Memory space {memory.attribute.data} is full, cannot allocate {size} bytes\")\n\n        if current_address % alignment != 0:\n            # align the address\n            current_address += alignment - (current_address % alignment)\n\n        next_address = current_address + size\n",
     ["C11.bump"]),
    ("bump: capacity without start", "mutant", SALLOC, "if next_address > memory.start + memory.capacity:", "if next_address > memory.capacity:", ["C11.bump"]),
    ("bump: rounds down", "mutant", SALLOC, "current_address += alignment - (current_address % alignment)", "current_address -= current_address % alignment", ["C11.bump", "internal"]),
    ("bump: emits unaligned start", "mutant", SALLOC, "pointer_cst = arith.ConstantOp.from_int_and_width(current_address, builtin.i32)\n        pointer = llvm.IntToPtrOp(pointer_cst)\n\n        ops_to_insert: list[Operation] = [pointer_cst, pointer]\n\n        created_struct, ops_to_insert_struct = create_memref_struct(op, pointer.output)",
     "pointer_cst = arith.ConstantOp.from_int_and_width(self.current_addresses[memory] - size, builtin.i32)\n        pointer = llvm.IntToPtrOp(pointer_cst)\n\n        ops_to_insert: list[Operation] = [pointer_cst, pointer]\n\n        created_struct, ops_to_insert_struct = create_memref_struct(op, pointer.output)", ["C11.bump"]),
    ("size: offset dropped", "mutant", M2S, "            total_size_op = AddiOp(total_size_op, offset_bytes_op)\n            ops_to_add.extend([offset_op, offset_bytes_op, total_size_op])\n", "            ops_to_add.extend([offset_op, offset_bytes_op])\n", ["C11.size-deps"]),
    ("size: steps in elements", "mutant", M2S, "layout.get_step_ops(bound_ops, alloc_op.memref, in_bytes=True)", "layout.get_step_ops(bound_ops, alloc_op.memref, in_bytes=False)", ["C11.size-deps"]),
    ("size: only outermost bounds", "mutant", M2S, "for (dim, depth), bound_op in bound_ops.items():", "for (dim, depth), bound_op in [(k, v) for k, v in bound_ops.items() if k[1] == 0]:", ["C11.size-deps"]),
    ("size: element size floor", "mutant", M2S, "            element_size_op = ConstantOp.from_int_and_width(element_type.size, IndexType())\n            stride_max = AddiOp(stride_max, element_size_op)", "            element_size_op = ConstantOp.from_int_and_width(element_type.bitwidth // 8, IndexType())\n            stride_max = AddiOp(stride_max, element_size_op)", ["C11.size-deps"]),
    ("lifetime: reintroduce one-level casts only", "mutant", SALLOC, "@revert:741773c", "", ["C11.lifetime"]),
    ("lifetime: nested uses not lifted", "mutant", SALLOC, "                    use_op = get_top_level_op(use.operation)\n                    uses[use_op].append(buffer)\n", "                    uses[use.operation].append(buffer)\n", ["C11.lifetime"]),
    ("lifetime: subviews not followed", "mutant", SALLOC, "                    | memref.SubviewOp\n", "", ["C11.lifetime"]),
    ("lifetime: pointer without memory.start", "mutant", SALLOC, "pointer_result[buffer.id] = offset + base", "pointer_result[buffer.id] = offset", ["C11.lifetime"]),
    ("lifetime: solver without capacity", "mutant", SALLOC, "problem = Problem(buffers_subset, memory.capacity - (base - memory.start))", "problem = Problem(buffers_subset, 2**31)", ["C11.lifetime"]),
    ("descriptor: sizes at [3, 0]", "mutant", SALLOC, "builtin.DenseArrayBase.from_list(builtin.i64, [3, i]), llvm_struct.res, shape_op.results[0]", "builtin.DenseArrayBase.from_list(builtin.i64, [3, 0]), llvm_struct.res, shape_op.results[0]", ["C11.descriptor"]),
    ("descriptor: pointer and aligned swapped", "mutant", SALLOC, "llvm.InsertValueOp(builtin.DenseArrayBase.from_list(builtin.i64, [0]), llvm_struct.res, pointer)", "llvm.InsertValueOp(builtin.DenseArrayBase.from_list(builtin.i64, [0]), llvm_struct.res, aligned_pointer)", ["C11.descriptor"]),
    ("static: constant-size check dropped", "mutant", SALLOC, "        if not isinstance(op.size.op, arith.ConstantOp):\n            raise RuntimeError(\"Static allocations should have a statically known size.\")\n        if op.memory_space is None:\n            raise RuntimeError(\"Allocations need a defined memory space\")\n\n        size_attr = op.size.op.value\n        assert isa(size_attr, IntegerAttr[IndexType])\n        size = size_attr.value.data\n\n        alignment_attr = op.alignment\n        if alignment_attr is None:\n            alignment = 0\n        else:\n            alignment = alignment_attr.value.data\n\n        # get the memory space",
     "        if op.memory_space is None:\n            raise RuntimeError(\"Allocations need a defined memory space\")\n\n        size_attr = op.size.op.value\n        assert isa(size_attr, IntegerAttr[IndexType])\n        size = size_attr.value.data\n\n        alignment_attr = op.alignment\n        if alignment_attr is None:\n            alignment = 0\n        else:\n            alignment = alignment_attr.value.data\n\n        # get the memory space", ["C11.static-size"]),
    ("twin: capacity test spelled with not/<=", "twin", SALLOC, "if next_address > memory.start + memory.capacity:", "if not next_address <= memory.start + memory.capacity:", []),
]

BARRIER = "snaxc/transforms/insert_sync_barrier.py"
DRULES = "snaxc/util/dispatching_rules.py"
DISPATCH = "snaxc/transforms/dispatch_regions.py"
TOFUNC = "snaxc/transforms/snax_to_func.py"
MAINPY = "snaxc/tools/snaxc_main.py"

_BE = ("                        if op_in_module.parent_op() == op_use.operation.parent_op() and isinstance(\n"
       "                            for_op := op_in_module.parent_op(), scf.ForOp\n"
       "                        ):\n"
       "                            assert isinstance(for_op.body.block.last_op, scf.YieldOp)\n"
       "                            ops_to_sync.append(for_op.body.block.last_op)\n")

CASES["C13"] = [
    ("polarity: consumer on the same core", "mutant", BARRIER, "if dispatch_to_dm(op_in_module, ctx) and not dispatch_to_dm(op_use.operation, ctx):", "if dispatch_to_dm(op_in_module, ctx) and dispatch_to_dm(op_use.operation, ctx):", ["C13.symmetric"]),
    ("barrier inserted after the pending op", "mutant", BARRIER, "rewriter.insert_op(sync_op, InsertPoint.before(op_in_module))", "rewriter.insert_op(sync_op, InsertPoint.after(op_in_module))", ["C13.symmetric"]),
    ("compute direction dropped", "mutant", BARRIER, "if dispatch_to_compute(op_in_module, ctx) and not dispatch_to_compute(op_use.operation, ctx):", "if False and dispatch_to_compute(op_in_module, ctx) and not dispatch_to_compute(op_use.operation, ctx):", ["C13.symmetric", "internal"]),
    ("func.CallOp dispatchable to dm", "mutant", DRULES, "    if isinstance(op, memref.CopyOp):\n        return True\n", "    if isinstance(op, memref.CopyOp):\n        return True\n    if isinstance(op, func.CallOp):\n        return True\n", ["C13.barrier-undispatchable"]),
    ("dm rule true for everything in a loop", "mutant", DRULES, "    if isinstance(op, memref.CopyOp):\n        return True\n", "    if isinstance(op, memref.CopyOp):\n        return True\n    if op.parent_op() is not None and op.parent_op().name == 'scf.for':\n        return True\n", ["C13.barrier-undispatchable"]),
    ("dispatcher collects unconditionally", "mutant", DISPATCH, "                if dispatch_rule(op):\n                    ops_to_dispatch.append(op)\n", "                ops_to_dispatch.append(op)\n", ["C13.guard-only-dispatchable"]),
    ("barrier lowered to nothing", "mutant", TOFUNC, "        rewriter.replace_op(func_op, func_call)\n", "        rewriter.erase_op(func_op)\n", ["C13.barrier-survives", "internal"]),
    ("DispatchRegions before the last InsertSyncBarrier", "mutant", MAINPY, "        pass_pipeline.append(InsertSyncBarrier())\n        pass_pipeline.append(DispatchRegions())\n", "        pass_pipeline.append(DispatchRegions())\n        pass_pipeline.append(InsertSyncBarrier())\n", ["C13.order"]),
    ("allocation moved between barrier and dispatch", "mutant", MAINPY, "        pass_pipeline.append(SnaxAllocatePass(self.args.alloc_mode))\n        pass_pipeline.append(InsertSyncBarrier())\n        pass_pipeline.append(DispatchRegions())\n", "        pass_pipeline.append(InsertSyncBarrier())\n        pass_pipeline.append(SnaxAllocatePass(self.args.alloc_mode))\n        pass_pipeline.append(DispatchRegions())\n", ["C13.order"]),
    ("second barrier pass only without debug", "mutant", MAINPY, "        pass_pipeline.append(SnaxAllocatePass(self.args.alloc_mode))\n        pass_pipeline.append(InsertSyncBarrier())\n", "        pass_pipeline.append(SnaxAllocatePass(self.args.alloc_mode))\n        if not self.args.debug:\n            pass_pipeline.append(InsertSyncBarrier())\n", ["C13.order"]),
    ("twin: dispatcher guard via local", "twin", DISPATCH, "                if dispatch_rule(op):\n                    ops_to_dispatch.append(op)\n", "                must_dispatch = dispatch_rule(op)\n                if must_dispatch:\n                    ops_to_dispatch.append(op)\n", []),
]
CASES["C13"] += [
    ("back-edge clause deleted in dm direction", "mutant", BARRIER, "                        ops_to_sync.append(op_use.operation)\n" + _BE + "\n                    if dispatch_to_compute", "                        ops_to_sync.append(op_use.operation)\n\n                    if dispatch_to_compute", ["C13.symmetric"]),
]

CASES["C14"] = [
    ("compute constant 1", "mutant", DISPATCH, "cst_0 := arith.ConstantOp.from_int_and_width(0, builtin.i32),", "cst_0 := arith.ConstantOp.from_int_and_width(1, builtin.i32),", ["C14.conditions"]),
    ("predicate ne", "mutant", DISPATCH, 'comparison_dm := arith.CmpiOp(func_call, cst_1, "eq"),', 'comparison_dm := arith.CmpiOp(func_call, cst_1, "ne"),', ["C14.conditions"]),
    ("dm core = nb_cores", "mutant", DISPATCH, "arith.ConstantOp.from_int_and_width(self.nb_cores - 1, builtin.i32)", "arith.ConstantOp.from_int_and_width(self.nb_cores, builtin.i32)", ["C14.conditions"]),
    ("rules crossed", "mutant", DISPATCH, "dispatcher(block, comparison_dm.result, lambda x: dispatch_to_dm(x, self.ctx))", "dispatcher(block, comparison_compute_early.result, lambda x: dispatch_to_dm(x, self.ctx))", ["C14.conditions"]),
    ("reintroduce F-22 (lazy any over blocks)", "mutant", DISPATCH, "@revert:fffb8de", "", ["C14.all-blocks"]),
    ("append unconditionally", "mutant", DISPATCH, "                if dispatch_rule(op):\n                    ops_to_dispatch.append(op)\n", "                ops_to_dispatch.append(op)\n", ["C14.wrap"]),
    ("parent test dropped from flush", "mutant", DISPATCH, "if len(ops_to_dispatch) and (not dispatch_rule(op) or op.parent is not ops_to_dispatch[-1].parent):", "if len(ops_to_dispatch) and not dispatch_rule(op):", ["C14.wrap"]),
    ("if inserted at the last op", "mutant", DISPATCH, "rewriter.insert_op(if_op, InsertPoint.before(ops_to_dispatch[0]))", "rewriter.insert_op(if_op, InsertPoint.before(ops_to_dispatch[-1]))", ["C14.wrap"]),
    ("reset without moving when group is a single op", "mutant", DISPATCH,
     "                    for dispatch_op in ops_to_dispatch:\n                        dispatch_op.detach()\n                        rewriter.insert_op(dispatch_op, InsertPoint.before(yield_op))\n",
     "                    if len(ops_to_dispatch) > 1:\n                        for dispatch_op in ops_to_dispatch:\n                            dispatch_op.detach()\n                            rewriter.insert_op(dispatch_op, InsertPoint.before(yield_op))\n", ["C14.wrap"]),
    ("twin: docstring edit", "twin", DISPATCH, '            """Helper function to create dispatches in a block.', '            """Helper function to create dispatches in a block (skips nothing).', []),
    ("private functions skipped", "mutant", DISPATCH, "        def dispatcher(\n            block: Block,", "        if func_op.sym_visibility is not None and func_op.sym_visibility.data == \"private\":\n            return\n\n        def dispatcher(\n            block: Block,", ["C14.all-blocks"]),
    ("ConvertLinalgToAccPass before DispatchRegions", "mutant", MAINPY, "        pass_pipeline.append(DispatchRegions())\n        pass_pipeline.append(DartLayoutResolutionPass())\n        pass_pipeline.append(ConvertDartToSnaxStream())\n        pass_pipeline.append(ConvertLinalgToAccPass())\n",
     "        pass_pipeline.append(ConvertLinalgToAccPass())\n        pass_pipeline.append(DispatchRegions())\n        pass_pipeline.append(DartLayoutResolutionPass())\n        pass_pipeline.append(ConvertDartToSnaxStream())\n", ["C14.order"]),
    ("twin: blocks dispatched in an explicit loop", "twin", DISPATCH,
     "        if any(\n            [\n                dispatcher(block, comparison_dm.result, lambda x: dispatch_to_dm(x, self.ctx))\n                for block in func_op.body.blocks\n            ]\n        ):\n",
     "        changed_dm = False\n        for block in func_op.body.blocks:\n            changed_dm = dispatcher(block, comparison_dm.result, lambda x: dispatch_to_dm(x, self.ctx)) or changed_dm\n        if changed_dm:\n", []),
]

CONSTRUCT = "snaxc/transforms/pipeline/construct_pipeline.py"
DUPB = "snaxc/transforms/pipeline/pipeline_duplicate_buffers.py"
UNROLL = "snaxc/transforms/pipeline/unroll_pipeline.py"

CASES["C15"] = [
    ("reintroduce F-12 (no lb/step guard)", "mutant", CONSTRUCT, "        if extract_cst_index(op.lb) != 0 or extract_cst_index(op.step) != 1:\n            return\n", "", ["C15.stage-shape"]),
    ("prologue one step too long", "mutant", UNROLL, "        # 0: Insert preamble\n        index_ops = []\n        for i in range(pipeline.nb_stages - 1):", "        # 0: Insert preamble\n        index_ops = []\n        for i in range(pipeline.nb_stages):", ["C15.counts"]),
    ("lb shift by nb_stages", "mutant", UNROLL, "cst = arith.ConstantOp.from_int_and_width(pipeline.nb_stages - 1, builtin.IndexType())", "cst = arith.ConstantOp.from_int_and_width(pipeline.nb_stages, builtin.IndexType())", ["C15.counts"]),
    ("index clones from 0", "mutant", UNROLL, "for i in range(1, pipeline.nb_stages):", "for i in range(0, pipeline.nb_stages - 1):", ["C15.counts"]),
    ("epilogue barrier deleted", "mutant", UNROLL, "            ops_to_add.append(snax.ClusterSyncOp())\n", "", ["C15.barriers"]),
    ("steady-state barrier deleted", "mutant", UNROLL, "        rewriter.insert_op(snax.ClusterSyncOp(), InsertPoint.at_end(pipeline.body.block))\n", "", ["C15.barriers"]),
    ("epilogue from ub - i", "mutant", UNROLL, "index = arith.ConstantOp.from_int_and_width(i + 1, builtin.IndexType())\n            index_val = arith.SubiOp(for_op.ub, index)", "index = arith.ConstantOp.from_int_and_width(i, builtin.IndexType())\n            index_val = arith.SubiOp(for_op.ub, index)", ["C15.counts"]),
    ("prologue stage j uses clone i", "mutant", UNROLL, "for operand_0, operand_j in zip(index_op.results, index_ops[i - j].results):\n                    operand_0.replace_uses_with_if(operand_j, lambda use: use.operation.parent_op() is stage)\n            rewriter.insert_op(snax.ClusterSyncOp(), InsertPoint.before(for_op))",
     "for operand_0, operand_j in zip(index_op.results, index_ops[i].results):\n                    operand_0.replace_uses_with_if(operand_j, lambda use: use.operation.parent_op() is stage)\n            rewriter.insert_op(snax.ClusterSyncOp(), InsertPoint.before(for_op))", ["C15.counts"]),
    ("stage predicate off by one", "mutant", UNROLL, "return stage.index.value.data == i", "return stage.index.value.data == i - 1", ["C15.index-shift"]),
    ("three-way parity with two buffers", "mutant", DUPB, "cst_2 = arith.ConstantOp.from_int_and_width(2, builtin.IndexType())", "cst_2 = arith.ConstantOp.from_int_and_width(3, builtin.IndexType())", ["C15.parity"]),
    ("non-adjacent stages accepted", "mutant", DUPB, "        if in_op.index.value.data != out_op.index.value.data + 1:\n            raise NotImplementedError(\"non-subsequent in/out uses of buffer is not yet supported\")\n", "", ["C15.parity"]),
    ("several readers accepted", "mutant", DUPB, "if len(in_uses) != 1 or len(out_uses) != 1:", "if len(out_uses) != 1:", ["C15.parity"]),
    ("shortcut also for dm-only stages", "mutant", DUPB, "if len(in_uses) == 0 or len(out_uses) == 0:", "if len(in_uses) == 0 or len(out_uses) == 0 or len(buffer.uses) == 2:", ["C15.parity"]),
    ("select always the original", "mutant", DUPB, "selection = arith.SelectOp(selection_index, buffers[0], buffers[1])", "selection = arith.SelectOp(selection_index, buffers[0], buffers[0])", ["C15.parity"]),
    ("single stage accepted", "mutant", CONSTRUCT, "if len(stages) < 2:", "if len(stages) < 1:", ["C15.stage-shape"]),
    ("block args always appended", "mutant", CONSTRUCT, "operation.operands[index] = stage_block.insert_arg(operand.type, arg_insert_index)", "operation.operands[index] = stage_block.insert_arg(operand.type, len(stage_block.args))", ["C15.stage-shape"]),
    ("twin: guard spelled with two ifs", "twin", CONSTRUCT, "        if extract_cst_index(op.lb) != 0 or extract_cst_index(op.step) != 1:\n            return\n", "        if extract_cst_index(op.lb) != 0:\n            return\n        if not extract_cst_index(op.step) == 1:\n            return\n", []),
    ("twin: shortcut disjuncts swapped", "twin", DUPB, "if len(in_uses) == 0 or len(out_uses) == 0:", "if len(out_uses) == 0 or len(in_uses) == 0:", []),
]

LAYOUTF = "snaxc/transforms/set_memory_layout.py"

CASES["C09"] = [
    ("pre-existing layout return deleted", "mutant", LAYOUTF, "            if isa(operand.type, MemRefType[Attribute]) and isinstance(operand.type.layout, TiledStridedLayoutAttr):\n                return\n", "            pass\n", ["C09.untouched"]),
    ("extent multiplied by the schedule bound", "mutant", LAYOUTF, "current_stride = current_stride * layout_bound", "current_stride = current_stride * schedule_bound", ["C09.radix"]),
    ("extent not advanced", "mutant", LAYOUTF, "                current_stride = current_stride * layout_bound\n", "", ["C09.radix"]),
    ("granularity helper subtracts", "mutant", LAYOUTF, "current_stride += (temporal_access_granularity - current_stride) % 64", "current_stride -= (current_stride - temporal_access_granularity) % 64", ["C09.monotone"]),
    ("granularity parentheses dropped", "mutant", LAYOUTF, "current_stride += (spatial_access_granularity - current_stride) % 64", "current_stride += spatial_access_granularity - current_stride % 64", ["C09.monotone"]),
    ("cover: remaining size doubled", "mutant", LAYOUTF, "                remaining = size // covered if size > 0 else 1", "                remaining = 2 * (size // covered) if size > 0 else 1", ["C09.radix"]),
    ("tiling without divisibility", "mutant", LAYOUTF, "                    if size_remaining % schedule_bound != 0:\n                        to_tile = False\n", "                    if False:\n                        to_tile = False\n", ["C09.radix"]),
    ("start extent 0", "mutant", LAYOUTF, "            current_stride = 1\n", "            current_stride = 0\n", ["C09.radix"]),
    ("canonicalize merges without step test", "mutant", TSTRIDE, "                and prev_stride.step * prev_stride.bound == stride.step\n", "", ["C09.canon"]),
    ("twin: extent update as augmented assignment", "twin", LAYOUTF, "current_stride = current_stride * layout_bound", "current_stride *= layout_bound", []),
    ("twin: divisibility guard positive form", "twin", LAYOUTF,
     "                    if size_remaining % schedule_bound != 0:\n                        to_tile = False\n",
     "                    if not size_remaining % schedule_bound == 0:\n                        to_tile = False\n", []),
]

CASTSF = "snaxc/transforms/realize_memref_casts.py"
SPACEF = "snaxc/transforms/set_memory_space.py"

CASES["C12"] = [
    ("copy-in inserted after the first use", "mutant", CASTSF, "                rewriter.insert_op(copy_op, InsertPoint.before(first_use))", "                rewriter.insert_op(copy_op, InsertPoint.after(first_use))", ["C12.copy-in"]),
    ("copy-out with swapped operands", "mutant", CASTSF, "copy_op = memref.CopyOp(op.dest, source_op.source)", "copy_op = memref.CopyOp(source_op.source, op.dest)", ["C12.copy-out", "C12.copy-in"]),
    ("copy-out searched forwards", "mutant", CASTSF, "for use_op in op.parent.walk(reverse=True):", "for use_op in op.parent.walk(reverse=False):", ["C12.copy-out"]),
    ("copy-out: output = not an input", "mutant", CASTSF, "            if isinstance(use_op, linalg.GenericOp):\n                is_output = op.results[0] in use_op.outputs", "            if isinstance(use_op, linalg.GenericOp):\n                is_output = op.results[0] not in use_op.inputs", ["C12.copy-out"]),
    ("copy-in: streaming regions always read", "mutant", CASTSF, "            elif isinstance(use_op, dart.StreamingRegionOpBase):\n                is_input = op.results[0] in use_op.inputs", "            elif isinstance(use_op, dart.StreamingRegionOpBase):\n                is_input = op.results[0] not in use_op.outputs", ["C12.copy-in"]),
    ("copy-out: break removed", "mutant", CASTSF, "                rewriter.insert_op(copy_op, InsertPoint.after(use_op))\n                break\n", "                rewriter.insert_op(copy_op, InsertPoint.after(use_op))\n", ["C12.copy-out"]),
    ("chain: layout casts not followed in the pattern", "mutant", CASTSF, "            and isinstance(source_op.source.op, MemorySpaceCastOp | LayoutCast)\n            and source_op.source.uses.get_length() == 1\n        ):", "            and isinstance(source_op.source.op, MemorySpaceCastOp)\n            and source_op.source.uses.get_length() == 1\n        ):", ["C12.chain"]),
    ("l1: operands in L1 selected", "mutant", SPACEF, "if isinstance(memref_type := x.type, builtin.MemRefType) and memref_type.memory_space != L1.attribute", "if isinstance(memref_type := x.type, builtin.MemRefType) and memref_type.memory_space == L1.attribute", ["C12.l1"]),
    ("l1: any cast reused", "mutant", SPACEF, "                    and use_type.memory_space == L1.attribute\n", "", ["C12.l1"]),
    ("boundary: every memref gets L3", "mutant", SPACEF, "                if isinstance(t.memory_space, builtin.NoneAttr):\n                    return builtin.MemRefType(", "                if True:\n                    return builtin.MemRefType(", ["C12.boundary"]),
    ("boundary: returns cast to own space", "mutant", SPACEF, "                    func_return_output_type,\n                    func_op_output.memory_space,\n", "                    func_return_output_type,\n                    func_return_output_type.memory_space,\n", ["C12.boundary"]),
    ("const: density test dropped", "mutant", CASTSF, "    if not dest_layout.data.is_dense():\n        warnings.warn(\"failed to transform constant op, dest layout is not contiguous\")\n        return None\n", "", ["C12.const-guards"]),
    ("const: None result ignored", "mutant", CASTSF, "        new_constant = transform_constant(const_source.value, op.dest.type.layout)\n        if new_constant is None:\n            # failed to transform\n            return\n", "        new_constant = transform_constant(const_source.value, op.dest.type.layout)\n        assert new_constant is not None or True\n", ["C12.const-guards", "internal"]),
    ("alloc: non-cast users allowed", "mutant", CASTSF, "        if not all(isinstance(use.operation, LayoutCast | MemorySpaceCastOp) for use in alloc_op.memref.uses):\n            return\n", "", ["C12.const-guards"]),
    ("subview global: all uses are subviews", "mutant", CASTSF, "        if subview.source.uses.get_length() != 1:\n            return\n", "        if not all(isinstance(u.operation, SubviewOp) for u in subview.source.uses):\n            return\n", ["C12.const-guards"]),
    ("reintroduce dangling global (no other-reference guard)", "mutant", CASTSF, "@revert:0c0bc7e", "", ["C12.const-guards"]),
    ("terminator guard dropped for constants", "mutant", CASTSF, "        if any(use.operation.has_trait(IsTerminator) for use in const_source.result.uses):\n            return\n", "", ["C12.const-guards"]),
    ("twin: copy-out classification via local", "twin", CASTSF, "            if isinstance(use_op, linalg.GenericOp):\n                is_output = op.results[0] in use_op.outputs", "            if isinstance(use_op, linalg.GenericOp):\n                is_output = op.dest in use_op.outputs", []),
]

L2K = "snaxc/transforms/convert_linalg_to_kernel.py"
K2L = "snaxc/transforms/convert_kernel_to_linalg.py"
KERNELD = "snaxc/dialects/kernel.py"
DISPK = "snaxc/transforms/dispatch_kernels.py"
DISPATCHING = "snaxc/accelerators/dispatching.py"
GEMMX = "snaxc/accelerators/snax_gemmx.py"

CASES["C18"] = [
    ("SupportedKernel with one type too few", "mutant", GEMMX, "SupportedKernel(kernel.MacOp, (i8, i8, i32)),", "SupportedKernel(kernel.MacOp, (i8, i8)),", ["C18.tables"]),
    ("is_same_kernel without the type list", "mutant", DISPATCHING, "        return list(self.operand_types) == [*kernel_op.operand_types, *kernel_op.result_types]", "        return True", ["C18.tables"]),
    ("rescale clamps swapped", "mutant", K2L, "        clamped_max = MinSIOp(with_zp_out, max)\n        clamped_min = MaxSIOp(clamped_max, min)", "        clamped_max = MaxSIOp(with_zp_out, max)\n        clamped_min = MinSIOp(clamped_max, min)", ["C18.rescale-lowering"]),
    ("rescale output zp guarded by input zp", "mutant", K2L, "        with_zp_out = AddiOp(trunced, zp_out)\n        clamped_max = MinSIOp(with_zp_out, max)", "        with_zp_out = AddiOp(trunced, zp_out) if op.input_zp.value.data else trunced\n        clamped_max = MinSIOp(with_zp_out, max)", ["C18.rescale-lowering", "internal"]),
    ("rescale zero points swapped", "mutant", K2L, "zp_in = ConstantOp.from_int_and_width(op.input_zp.value.data, builtin.IntegerType(32))\n        zp_out = ConstantOp.from_int_and_width(op.output_zp.value.data, builtin.IntegerType(32))", "zp_in = ConstantOp.from_int_and_width(op.output_zp.value.data, builtin.IntegerType(32))\n        zp_out = ConstantOp.from_int_and_width(op.input_zp.value.data, builtin.IntegerType(32))", ["C18.rescale-lowering"]),
    ("rescale shift before multiply", "mutant", K2L, "        multed = MuliOp(extended, mult)\n        shifted = ShRSIOp(multed, shift)", "        multed = ShRSIOp(extended, shift)\n        shifted = MuliOp(multed, mult)", ["C18.rescale-lowering"]),
    ("operand-count test of ParseLinalgBody dropped", "mutant", L2K, "            if len(op_def.get_irdl_definition().operands) != len(linalg_op.body.block.args[:-1]):\n                # wrong number of operands, continue search\n                continue\n", "", ["C18.parse"]),
    ("equivalence: length test dropped", "mutant", L2K, "    if len(block_a.ops) != len(block_b.ops):\n        return False\n", "", ["C18.all-ops"]),
    ("equivalence: sign extensions ignored", "mutant", L2K, "    for op_a, op_b in zip(block_a.ops, block_b.ops, strict=True):", "    for op_a, op_b in zip([o for o in block_a.ops if o.name != 'arith.extsi'], [o for o in block_b.ops if o.name != 'arith.extsi']):", ["C18.all-ops"]),
    ("equivalence: first mismatch accepted", "mutant", L2K, "        if type(op_a) is not type(op_b):\n            return False\n", "        if type(op_a) is type(op_b):\n            return True\n", ["C18.all-ops"]),
    ("dispatch: kernel type test dropped", "mutant", DISPK, "                if supported_kernel.kernel_type is not type(kernel_op):\n                    # no, continue\n                    continue\n", "", ["C18.dispatch"]),
    ("mac region with two arguments", "mutant", KERNELD, "        def equivalent_region(args: tuple[BlockArgument, ...]) -> None:\n            mul = arith.MuliOp(args[0], args[1])\n            mac = arith.AddiOp(args[2], mul)\n            linalg.YieldOp(mac)\n\n        @Builder.implicit_region(\n            (\n                SSAValue.get(self.lhs).type,\n                SSAValue.get(self.rhs).type,\n                *self.result_types,\n            )\n        )",
     "        def equivalent_region(args: tuple[BlockArgument, ...]) -> None:\n            mul = arith.MuliOp(args[0], args[1])\n            mac = arith.AddiOp(args[2], mul)\n            linalg.YieldOp(mac)\n\n        @Builder.implicit_region(\n            (\n                SSAValue.get(self.lhs).type,\n                *self.result_types,\n            )\n        )", ["C18.tables"]),
    ("expansion of multi-op bodies", "mutant", K2L, "        if not isinstance(kernel_op.next_op, linalg.YieldOp):\n            return\n", "", ["C18.expand"]),
    ("twin: rescale statements reordered", "twin", K2L, "        zp_in = ConstantOp.from_int_and_width(op.input_zp.value.data, builtin.IntegerType(32))\n        zp_out = ConstantOp.from_int_and_width(op.output_zp.value.data, builtin.IntegerType(32))", "        zp_out = ConstantOp.from_int_and_width(op.output_zp.value.data, builtin.IntegerType(32))\n        zp_in = ConstantOp.from_int_and_width(op.input_zp.value.data, builtin.IntegerType(32))", []),
    ("twin: equivalence via all()", "twin", L2K, "    for op_a, op_b in zip(block_a.ops, block_b.ops, strict=True):\n        if type(op_a) is not type(op_b):\n            return False\n\n    return True", "    for op_a, op_b in zip(block_a.ops, block_b.ops, strict=True):\n        if not type(op_a) is type(op_b):\n            return False\n    return True", []),
]

STREAMD = "snaxc/dialects/snax_stream.py"
SNAXD = "snaxc/dialects/snax.py"
EXTINIT = "snaxc/accelerators/streamers/extensions/__init__.py"
CANONA = "snaxc/util/canonicalize_affine.py"
PACKF = "snaxc/util/pack_bitlist.py"
STREAMERSF = "snaxc/accelerators/streamers/streamers.py"

CASES["C19"] = [
    ("printer: ts before ub", "mutant", STREAMD, '            printer.print_string("ub = [")\n            printer.print_list(self.upper_bounds, lambda attr: printer.print_int(attr.data))\n            printer.print_string("], ts = [")\n            printer.print_list(self.temporal_strides, lambda attr: printer.print_int(attr.data))',
     '            printer.print_string("ts = [")\n            printer.print_list(self.temporal_strides, lambda attr: printer.print_int(attr.data))\n            printer.print_string("], ub = [")\n            printer.print_list(self.upper_bounds, lambda attr: printer.print_int(attr.data))', ["C19.stride-pattern-io"]),
    ("parser returns (ts, ub, ss)", "mutant", STREAMD, "            return (ub, ts, ss)", "            return (ts, ub, ss)", ["C19.stride-pattern-io"]),
    ("printer: ub prints temporal strides", "mutant", STREAMD, '            printer.print_string("ub = [")\n            printer.print_list(self.upper_bounds,', '            printer.print_string("ub = [")\n            printer.print_list(self.temporal_strides,', ["C19.stride-pattern-io"]),
    ("stride canon: fold compares running extent", "mutant", STREAMD, "            elif len(new_upper_bounds) and new_upper_bounds[-1] * new_temporal_strides[-1] == ts:", "            elif len(new_upper_bounds) and upper_bounds[0] * temporal_strides[0] == ts:", ["C19.stride-canon"]),
    ("stride canon: bound 2 dropped", "mutant", STREAMD, "            elif ub == 1:\n                pass", "            elif ub <= 2:\n                pass", ["C19.stride-canon"]),
    ("HasByteMask removed from the registry", "mutant", EXTINIT, "    HasByteMask().name: HasByteMask,\n", "", ["C19.opt-registry"]),
    ("two options share a name", "mutant", STREAMERSF, '    name = "bm"\n', '    name = "b"\n', ["C19.opt-registry"]),
    ("config parser reads spat before temp", "mutant", SNAXD, '                parser.parse_keyword("temp")', '                parser.parse_keyword("spat")', ["C19.streamer-config-io"]),
    ("canonicalize_expr returns after one pass", "mutant", CANONA, "    if new_expr == expr:\n        return new_expr\n\n    return canonicalize_expr(new_expr)", "    return new_expr", ["C19.idempotence-shape"]),
    ("x * 0 treated like x * 1", "mutant", CANONA, "        if expr.rhs.value == 1:\n            return expr.lhs\n        # turn (a + b) * cst", "        if expr.rhs.value == 0:\n            return expr.lhs\n        # turn (a + b) * cst", ["C19.rewrite-identities"]),
    ("distribution drops the factor of b", "mutant", CANONA, "new_expr = (expr.lhs.lhs * expr.rhs) + (expr.lhs.rhs * expr.rhs)", "new_expr = (expr.lhs.lhs * expr.rhs) + expr.lhs.rhs", ["C19.rewrite-identities"]),
    ("constant folding of add uses product", "mutant", CANONA, "return AffineConstantExpr(expr.lhs.value + expr.rhs.value)", "return AffineConstantExpr(expr.lhs.value * expr.rhs.value)", ["C19.rewrite-identities"]),
    ("x mod 1 -> x", "mutant", CANONA, "        if expr.rhs.value == 1:\n            return AffineConstantExpr(0)", "        if expr.rhs.value == 1:\n            return expr.lhs", ["C19.rewrite-identities"]),
    ("x floordiv c -> x for every c", "mutant", CANONA, "        # division by 1 can be omitted\n        if expr.rhs.value == 1:\n            return expr.lhs", "        # division by 1 can be omitted\n        if expr.rhs.value >= 1:\n            return expr.lhs", ["C19.rewrite-identities"]),
    ("pack: value shifted by next offset", "mutant", PACKF, "        yield (shift := arith.ShLIOp(value, offset))", "        yield (shift := arith.ShLIOp(offset, value))", ["C19.pack"]),
    ("pack: non-strict zip", "mutant", PACKF, "for int_val, int_off in zip(values, offsets, strict=True):", "for int_val, int_off in zip(values, offsets):", ["C19.pack"]),
    ("twin: reassociation written with explicit constructor", "twin", CANONA, "        new_expr = expr.rhs + expr.lhs\n", "        new_expr = AffineBinaryOpExpr(AffineBinaryOpKind.Add, expr.rhs, expr.lhs)\n", []),
    ("twin: a + 0 test spelled with not", "twin", CANONA, "        if expr.rhs.value == 0:\n            return expr.lhs", "        if not expr.rhs.value != 0:\n            return expr.lhs", []),
]

DECODEF = "snaxc/phs/decode.py"
PHSDF = "snaxc/dialects/phs.py"
PHSACC = "snaxc/accelerators/snax_phs.py"

CASES["C20"] = [
    ("one-alternative chooses counted", "mutant", PHSDF, "                if len(list(switchee.operations())) > 1:\n                    count += 1\n", "                count += 1\n", ["C20.switch-count"]),
    ("one-alternative chooses emit a value", "mutant", DECODEF, "            if len(list(switchee.operations())) == 1:\n                continue\n", "            if len(list(switchee.operations())) == 1:\n                call_switches.append(0)\n                continue\n", ["C20.switch-count"]),
    ("unused choose emits nothing", "mutant", DECODEF, "                call_switches.append(0)\n                continue\n            target_operation", "                continue\n            target_operation", ["C20.switch-count"]),
    ("muxes not counted", "mutant", PHSDF, "            elif isinstance(switchee, MuxOp):\n                count += 1\n", "            elif isinstance(switchee, MuxOp):\n                pass\n", ["C20.switch-count"]),
    ("values grouped: chooses first, then muxes", "mutant", DECODEF, "    return cast(Sequence[int], call_switches)", "    return cast(Sequence[int], [*[s for s in call_switches if not isinstance(s, phs.MuxOp)], *[mapping[m] for m in mux_switches]])", ["C20.decode-order"]),
    ("placeholder replaced at the wrong index", "mutant", DECODEF, "            call_switches[i] = mapping[switch]", "            call_switches[i - 1] = mapping[switch]", ["C20.decode-order"]),
    ("only the first half of the muxes searched", "mutant", DECODEF, "    mapping = search_mapping(graph, abstract_graph, mux_switches)", "    mapping = search_mapping(graph, abstract_graph, mux_switches[: len(mux_switches) // 2 + 1])", ["C20.search-complete"]),
    ("search tries the left branch only", "mutant", DECODEF, "    choices = (0, 1)  # 0 = left branch , 1 = right branch", "    choices = (0,)  # 0 = left branch", ["C20.search-complete"]),
    ("mapping returned unvalidated", "mutant", DECODEF, "        if valid_mapping(graph, abstract_graph, mapping):\n            return mapping.copy()\n        return\n", "        return mapping.copy()\n", ["C20.search-complete"]),
    ("fields sized by switch_no", "mutant", PHSACC, "for i in range(self.pe.get_true_switches()):", "for i in range(self.pe.switch_no.value.data):", ["C20.accelerator"]),
    ("twin: count via conditional expression", "twin", PHSDF, "                if len(list(switchee.operations())) > 1:\n                    count += 1\n", "                if not len(list(switchee.operations())) <= 1:\n                    count += 1\n", []),
    ("twin: one-alternative test spelled <= 1", "twin", DECODEF, "            if len(list(switchee.operations())) == 1:\n                continue\n", "            if len(list(switchee.operations())) <= 1:\n                continue\n", []),
]

SNAXF = "snaxc/accelerators/snax.py"
XDMAF = "snaxc/accelerators/snax_xdma.py"
ALUF = "snaxc/accelerators/snax_alu.py"
HWPEF = "snaxc/accelerators/snax_hwpe_mult.py"
RESCALEX = "snaxc/accelerators/streamers/extensions/rescale_extension.py"

CASES["C08"] = [
    ("reintroduce F-4 (ceil(n/4) multipliers)", "mutant", GEMMX, "            mult_vals = [mult.result for _ in range(self.n)]", "            mult_vals = [mult.result for _ in range(ceil(self.n / 4))]", ["C08.tail-shape"]),
    ("reintroduce F-6 (single value for an extension)", "mutant", XDMAF, "@revert:a6a8d57", "", ["C08.streamer-shape"]),
    ("values: bounds and strides loops swapped", "mutant", SNAXF,
     "                cst = arith.ConstantOp.from_int_and_width(bound, i32)\n                result.append(([cst], cst.result))\n\n            # ops for temporal strides\n            for dim, flag in enumerate(streamer.temporal_dims):\n                stride = temporal_strides[dim].data\n                if flag == StreamerFlag.Irrelevant:\n                    # Irrelevant temporal strides should be zero\n                    assert stride == 0\n                cst = arith.ConstantOp.from_int_and_width(stride, i32)\n                result.append(([cst], cst.result))\n\n            # address remap:",
     "                cst = arith.ConstantOp.from_int_and_width(stride, i32)\n                result.append(([cst], cst.result))\n\n            # ops for temporal strides\n            for dim, flag in enumerate(streamer.temporal_dims):\n                bound = upper_bounds[dim].data\n                cst = arith.ConstantOp.from_int_and_width(bound, i32)\n                result.append(([cst], cst.result))\n\n            # address remap:", ["C08.labels"]),
    ("fields: ptr_high dropped", "mutant", SNAXF, '            result.extend([f"{name}_ptr_low", f"{name}_ptr_high"])\n            # spatial strides\n            result.extend([f"{name}_sstride_{i}" for i in range(streamer.spatial_dim)])\n            # temporal bounds\n            result.extend([f"{name}_bound_{i}" for i in range(streamer.temporal_dim)])\n            # temporal strides\n            result.extend([f"{name}_tstride_{i}" for i in range(streamer.temporal_dim)])\n            # options\n            if any(isinstance(opt, HasAddressRemap)',
     '            result.extend([f"{name}_ptr_low"])\n            # spatial strides\n            result.extend([f"{name}_sstride_{i}" for i in range(streamer.spatial_dim)])\n            # temporal bounds\n            result.extend([f"{name}_bound_{i}" for i in range(streamer.temporal_dim)])\n            # temporal strides\n            result.extend([f"{name}_tstride_{i}" for i in range(streamer.temporal_dim)])\n            # options\n            if any(isinstance(opt, HasAddressRemap)', ["C08.streamer-shape"]),
    ("values: channel mask unconditional", "mutant", SNAXF, "            if any(isinstance(opt, HasChannelMask) for opt in streamer.opts):\n                if is_zero_pattern:\n                    # mask all channels such that they generate zeros\n                    c0 = arith.ConstantOp.from_int_and_width(0, i32)\n                    result.append(([c0], c0.result))\n                else:\n                    # else, set to 32b111...111 (=-1) (all enabled)\n                    n1 = arith.ConstantOp.from_int_and_width(-1, i32)\n                    result.append(([n1], n1.result))\n\n        # transpose specifications",
     "            if True:\n                if is_zero_pattern:\n                    # mask all channels such that they generate zeros\n                    c0 = arith.ConstantOp.from_int_and_width(0, i32)\n                    result.append(([c0], c0.result))\n                else:\n                    # else, set to 32b111...111 (=-1) (all enabled)\n                    n1 = arith.ConstantOp.from_int_and_width(-1, i32)\n                    result.append(([n1], n1.result))\n\n        # transpose specifications", ["C08.streamer-shape"]),
    ("values: transpose and broadcast merged into one loop", "mutant", SNAXF,
     "                c0 = arith.ConstantOp.from_int_and_width(0, i32)\n                result.append(([c0], c0.result))\n\n        for operand, streamer in enumerate(self.streamer_config.data.streamers):\n            if any(isinstance(opt, HasBroadcast) for opt in streamer.opts):",
     "                c0 = arith.ConstantOp.from_int_and_width(0, i32)\n                result.append(([c0], c0.result))\n            if any(isinstance(opt, HasBroadcast) for opt in streamer.opts):", ["C08.streamer-shape"]),
    ("broadcast value depends on data (emitted only when broadcasting)", "mutant", SNAXF, "                else:\n                    c0 = arith.ConstantOp.from_int_and_width(0, i32)\n                    result.append(([c0], c0.result))\n\n        return result", "\n        return result", ["C08.streamer-shape"]),
    ("rescale extension csr_length 3", "mutant", RESCALEX, "    csr_length = 4\n", "    csr_length = 3\n", ["C08.extension-tables"]),
    ("gemmx values: csr1 dropped", "mutant", GEMMX, "                ([], csr0),  # csr0\n                ([], csr1),  # csr1\n", "                ([], csr0),  # csr0\n", ["C08.tail-shape"]),
    ("gemmx fields: N and M swapped in the tuple only", "mutant", GEMMX, '            "K",\n            "N",\n            "M",\n            # subtractions', '            "K",\n            "M",\n            "N",\n            # subtractions', ["C08.stated-belief"]),
    ("alu stream values: loop bound dropped", "mutant", ALUF, "            ([c0], c0.result),\n            ([loop_bound], loop_bound.result),\n        ]", "            ([loop_bound], loop_bound.result),\n        ]", ["C08.tail-shape"]),
    ("alu hard-wired list: one entry too few", "mutant", ALUF, "            # alu mode\n            ([], c0.result),\n            # alu iterations", "            # alu iterations", ["C08.tail-shape"]),
    ("bounds padded with 0", "mutant", SNAXF, "upper_bounds = upper_bounds + ((IntAttr(1),) * (streamer.temporal_dim - len(upper_bounds)))", "upper_bounds = upper_bounds + ((IntAttr(0),) * (streamer.temporal_dim - len(upper_bounds)))", ["C08.padding"]),
    ("reuse collapse without the stride test", "mutant", SNAXF, "if flag == StreamerFlag.Reuse and bound > 1 and stride == 0:", "if flag == StreamerFlag.Reuse and bound > 1:", ["C08.padding"]),
    ("gemmx: multipliers replicated under the shift's length", "mutant", GEMMX, "                    if len(mult_vals_int) == 1:\n                        mult_vals_int = (mult_vals_int[0],) * self.n", "                    if len(shift_vals_int) == self.n:\n                        mult_vals_int = (mult_vals_int[0],) * self.n", ["C08.replication"]),
    ("launch: three values for two fields", "mutant", ALUF, "token := accfg.LaunchOp([launch_val, launch_val], self.launch_fields, setup),", "token := accfg.LaunchOp([launch_val, launch_val, launch_val], self.launch_fields, setup),", ["C08.launch"]),
    ("twin: fields built with a comprehension instead of extend", "twin", SNAXF, '            result.extend([f"{name}_bound_{i}" for i in range(streamer.temporal_dim)])\n            # temporal strides\n            result.extend([f"{name}_tstride_{i}" for i in range(streamer.temporal_dim)])\n            # options\n            if any(isinstance(opt, HasAddressRemap)',
     '            for i in range(streamer.temporal_dim):\n                result.append(f"{name}_bound_{i}")\n            # temporal strides\n            result += [f"{name}_tstride_{i}" for i in range(len(streamer.temporal_dims))]\n            # options\n            if any(isinstance(opt, HasAddressRemap)', []),
    ("twin: value loop variable renamed", "twin", SNAXF, "        for operand, streamer in enumerate(self.streamer_config.data.streamers):\n            if any(isinstance(opt, TransposeExtension) for opt in streamer.opts):\n                # if we want", "        for idx, strm in enumerate(self.streamer_config.data.streamers):\n            if any(isinstance(o, TransposeExtension) for o in strm.opts):\n                # if we want", []),
]

CSRPASS = "snaxc/transforms/convert_accfg_to_csr.py"
ROCCF = "snaxc/accelerators/rocc.py"
PHSACCF = "snaxc/accelerators/snax_phs.py"
GEMMINIF = "snaxc/accelerators/gemmini.py"

CASES["C04"] = [
    ("gemmx: multiplier block starts n//4 behind the shifts", "mutant", GEMMX, '**{f"mult_{i}": addr_next + 6 + nb_shifts + i for i in range(nb_mults)},', '**{f"mult_{i}": addr_next + 6 + self.n // 4 + i for i in range(nb_mults)},', ["C04.injective"]),
    ("streamer launch dict forgets the two reserved status registers", "mutant", SNAXF, "        # 1 busy register + 1 performance counter after launch field\n        base_addr += 2\n", "", ["C04.injective"]),
    ("alu: barrier shares the launch register", "mutant", ALUF, '            {**streamer_launch, "launch_alu": addr_next + 2},\n            addr_next + 3,', '            {**streamer_launch, "launch_alu": addr_next + 2},\n            addr_next + 2,', ["C04.injective"]),
    ("phs: loop bound placed on the last switch", "mutant", PHSACCF, "        base_addr += len(self.phs_switch_fields)\n        return base_addr, phs_switches", "        base_addr += len(self.phs_switch_fields) - 1\n        return base_addr, phs_switches", ["C04.injective"]),
    ("xdma: multicast gap counted once", "mutant", XDMAF, "        updated_base_addr = base_addr + len(self.streamer_setup_fields) + 2 * self.max_multicast_dest - 2", "        updated_base_addr = base_addr + len(self.streamer_setup_fields) + self.max_multicast_dest - 2", ["C04.injective"]),
    ("hwpe: two fields on one literal address", "mutant", HWPEF, '                "nr_iters": 0x3D5,', '                "nr_iters": 0x3D4,', ["C04.injective"]),
    ("setup dict: every field on the base address", "mutant", SNAXF, "        streamer_setup = {key: base_addr + i for i, key in enumerate(self.streamer_setup_fields)}", "        streamer_setup = {key: base_addr for i, key in enumerate(self.streamer_setup_fields)}", ["C04.injective"]),
    ("gemmx: bypassSIMD missing from the address dictionary", "mutant", GEMMX, '                "bypassSIMD": addr_next + 7 + nb_shifts + nb_mults,\n', "", ["C04.names"]),
    ("gemmx: shift fields declared per lane, addressed per register", "mutant", GEMMX, '            *(f"shift_{i}" for i in range(ceil(self.n / 4))),', '            *(f"shift_{i}" for i in range(self.n)),', ["C04.names", "C08.tail-shape"]),
    ("alu: launch field renamed in the dictionary only", "mutant", ALUF, '{**streamer_launch, "launch_alu": addr_next + 2},', '{**streamer_launch, "launch": addr_next + 2},', ["C04.names"]),
    ("gemmini: rs2 entry with another funct7", "mutant", GEMMINIF, '        "k_LOOP_WS_CONFIG_ADDRS_AB.rs2": 10,', '        "k_LOOP_WS_CONFIG_ADDRS_AB.rs2": 11,', ["C04.rocc-table"]),
    ("setup lowering: address of a fixed field", "mutant", SNAXF, "            addr = field_to_csr[field]\n", "            addr = next(iter(field_to_csr.values()))\n", ["C04.setup-lowering"]),
    ("setup lowering: only index-typed values written", "mutant", SNAXF,
     "            addr = field_to_csr[field]\n            ops.extend(\n                [\n                    addr_val := arith.ConstantOp(addr),\n                    llvm.InlineAsmOp(\n                        \"csrw $0, $1\",\n                        \"I, rK\",\n                        [addr_val, val],\n                        has_side_effects=True,\n                    ),\n                ]\n            )\n        return ops",
     "            addr = field_to_csr[field]\n            if isinstance(val.owner, arith.IndexCastOp):\n                ops.extend(\n                    [\n                        addr_val := arith.ConstantOp(addr),\n                        llvm.InlineAsmOp(\n                            \"csrw $0, $1\",\n                            \"I, rK\",\n                            [addr_val, val],\n                            has_side_effects=True,\n                        ),\n                    ]\n                )\n        return ops", ["C04.setup-lowering"]),
    ("setup lowering: operands exchanged", "mutant", SNAXF, '                        "I, rK",\n                        [addr_val, val],', '                        "I, rK",\n                        [val, addr_val],', ["C04.setup-lowering"]),
    ("launch lowering: addresses from the setup table", "mutant", SNAXF, "        field_to_csr = dict(acc_op.launch_field_items())", "        field_to_csr = dict(acc_op.field_items())", ["C04.setup-lowering"]),
    ("launch lowering: constant 1 instead of the launch value", "mutant", SNAXF, "                        [addr_val, launch_value],", "                        [addr_val, arith.ConstantOp(builtin.IntegerAttr(1, 5))],", ["C04.setup-lowering"]),
    ("setup lowering: writes returned in reverse", "mutant", SNAXF, "                ]\n            )\n        return ops\n\n\nclass SNAXStreamer", "                ]\n            )\n        return ops[::-1]\n\n\nclass SNAXStreamer", ["C04.program-order"]),
    ("gemmx launch: streamer launch value to the gemmx register", "mutant", GEMMX, '        ops.append(csr_op(addr_streamer.result, launch_values["launch_streamer"]))', '        ops.append(csr_op(addr_gemmx.result, launch_values["launch_streamer"]))', ["C04.setup-lowering"]),
    ("barrier 3 polls a literal address", "mutant", SNAXF, "                    barrier := arith.ConstantOp(acc_op.barrier),\n                    zero := arith.ConstantOp(builtin.IntegerAttr(0, 32)),\n                    status := llvm.InlineAsmOp(\n                        \"csrr $0, $1\",\n                        # I = any 12 bit immediate\n                        # =r = store result in A 32- or 64-bit\n                        # general-purpose register (depending on the platform XLEN)\n                        \"=r, I\",\n                        [barrier],\n                        [i32],\n                        has_side_effects=True,\n                    ),\n                    # check if not equal to zero\n                    comparison := arith.CmpiOp(status, zero, \"ne\"),\n                    ConditionOp(comparison.results[0]),\n                ],\n                [\n                    YieldOp(),\n                ],\n            ),\n        ]\n\n\nclass SNAXPollingBarrier4",
     "                    barrier := arith.ConstantOp(builtin.IntegerAttr(0x3CF, 12)),\n                    zero := arith.ConstantOp(builtin.IntegerAttr(0, 32)),\n                    status := llvm.InlineAsmOp(\n                        \"csrr $0, $1\",\n                        \"=r, I\",\n                        [barrier],\n                        [i32],\n                        has_side_effects=True,\n                    ),\n                    # check if not equal to zero\n                    comparison := arith.CmpiOp(status, zero, \"ne\"),\n                    ConditionOp(comparison.results[0]),\n                ],\n                [\n                    YieldOp(),\n                ],\n            ),\n        ]\n\n\nclass SNAXPollingBarrier4", ["C04.await"]),
    ("barrier 4 writes to the setup registers", "mutant", SNAXF, "        for _, launch_addr in acc_op.launch_field_items():", "        for _, launch_addr in acc_op.field_items():", ["C04.await"]),
    ("await pattern not registered", "mutant", CSRPASS, "                    LowerAccfgAwaitToCsr(op, ctx),\n", "", ["C04.exhaustive"]),
    ("declarations erased in the lowering walker", "mutant", CSRPASS, "                    LowerAccfgAwaitToCsr(op, ctx),\n                ]", "                    LowerAccfgAwaitToCsr(op, ctx),\n                    RemoveAcceleratorOps(),\n                ]", ["C04.exhaustive"]),
    ("launch lowered through the state type's accelerator of another op", "mutant", CSRPASS, "        acc_op, acc_info = self.get_acc(op.get_acc_name())\n        # acc_op, acc_info = self.get_acc(op.state.type.accelerator.data)", "        acc_op, acc_info = self.get_acc(next(iter(self.ctx.registered_accelerators)))", ["C04.exhaustive"]),
    ("states: only operands stripped", "mutant", CSRPASS, "                result_types=[res.type for res in op.results if not isinstance(res.type, accfg.StateType)],", "                result_types=[res.type for res in op.results],", ["C04.state-erasure"]),
    ("states: block arguments of the first region only", "mutant", CSRPASS, "        for region in op.regions:\n            for block in region.blocks:", "        for region in op.regions[:1]:\n            for block in region.blocks:", ["C04.state-erasure"]),
    ("states: pattern typed to scf.for", "mutant", CSRPASS, "    def match_and_rewrite(self, op: Operation, rewriter: PatternRewriter, /):\n        \"\"\"\n        This  method", "    @op_type_rewrite_pattern\n    def match_and_rewrite(self, op: scf.ForOp, rewriter: PatternRewriter, /):\n        \"\"\"\n        This  method", ["C04.state-erasure"]),
    ("states: erased results keep their old value", "mutant", CSRPASS, "(None if isinstance(res.type, accfg.StateType) else new_ops_results.pop(0))", "(new_ops_results.pop(0) if not isinstance(res.type, accfg.StateType) else res)", ["C04.state-erasure"]),
    ("rocc: partner taken from the other key", "mutant", ROCCF, '                field_dict[instruction + ".rs1"] = prev_state[instruction + ".rs1"]', '                field_dict[instruction + ".rs1"] = prev_state[instruction + ".rs2"]', ["C04.rocc-pairs"]),
    ("rocc: previous state overrides the op's own value", "mutant", ROCCF, '            if instruction + ".rs2" not in field_dict:\n                field_dict[instruction + ".rs2"] = prev_state[instruction + ".rs2"]\n    # For launch_ops', '            if instruction + ".rs2" in prev_state:\n                field_dict[instruction + ".rs2"] = prev_state[instruction + ".rs2"]\n    # For launch_ops', ["C04.rocc-pairs"]),
    ("rocc: previous state never traced", "mutant", ROCCF, "        prev_state = infer_state_of(fields_op.in_state) if fields_op.in_state else {}", "        prev_state = {}", ["C04.rocc-pairs"]),
    ("rocc: operands passed (rs2, rs1)", "mutant", ROCCF, "                    values[name][0],\n                    values[name][1],", "                    values[name][1],\n                    values[name][0],", ["C04.rocc-pairs"]),
    ("rocc: defaults computed but the op is not rebuilt", "mutant", ROCCF, "                setup_op = accfg.SetupOp(new_values, new_params, setup_op.accelerator)", "                accfg.SetupOp(new_values, new_params, setup_op.accelerator)", ["C04.rocc-pairs"]),
    ("rocc: memoised state overlaid in place", "mutant", ROCCF,
     "def create_pairs(\n", "from functools import cache\n\n\n@cache\ndef known_state(state):\n    return infer_state_of(state)\n\n\ndef create_pairs(\n", []),
    ("rocc: memoised state mutated", "mutant", ROCCF,
     "        prev_state = infer_state_of(fields_op.in_state) if fields_op.in_state else {}\n        for instruction in instructions:",
     "        prev_state = _known(fields_op.in_state) if fields_op.in_state else {}\n        prev_state.update({k: v for k, v in field_dict.items()})\n        for instruction in instructions:", ["C04.shared-state", "C04.rocc-pairs"]),
    ("twin: gemmx shift count spelled (n + 3) // 4 in the dictionary", "twin", GEMMX, "        nb_shifts = ceil(self.n / 4)\n        nb_mults = self.n\n", "        nb_shifts = (self.n + 3) // 4\n        nb_mults = self.n\n", []),
    ("twin: address dictionary built in another order", "twin", ALUF, '                **streamer_setup,\n                "alu_mode": addr_next + 0,\n                "loop_bound_alu": addr_next + 1,', '                "loop_bound_alu": addr_next + 1,\n                "alu_mode": addr_next + 0,\n                **streamer_setup,', []),
    ("twin: setup lowering with renamed loop variables and a helper variable", "twin", SNAXF, "        for field, val in setup_op.iter_params():\n            if isinstance(val.type, builtin.IndexType):\n                val_to_i32 = arith.IndexCastOp(val, builtin.i32)\n                ops.append(val_to_i32)\n                val = val_to_i32.result\n            addr = field_to_csr[field]\n            ops.extend(\n                [\n                    addr_val := arith.ConstantOp(addr),\n                    llvm.InlineAsmOp(\n                        \"csrw $0, $1\",\n                        \"I, rK\",\n                        [addr_val, val],",
     "        for name, value in setup_op.iter_params():\n            if isinstance(value.type, builtin.IndexType):\n                val_to_i32 = arith.IndexCastOp(value, builtin.i32)\n                ops.append(val_to_i32)\n                value = val_to_i32.result\n            csr = field_to_csr[name]\n            ops.extend(\n                [\n                    addr_val := arith.ConstantOp(csr),\n                    llvm.InlineAsmOp(\n                        \"csrw $0, $1\",\n                        \"I, rK\",\n                        [addr_val, value],", []),
    ("twin: csrw template with exchanged operand numbers and operands", "twin", SNAXF, '                        "csrw $0, $1",\n                        "I, rK",\n                        [addr_val, val],', '                        "csrw $1, $0",\n                        "rK, I",\n                        [val, addr_val],', []),
    ("twin: rocc partner state copied before use", "twin", ROCCF, "        prev_state = infer_state_of(fields_op.in_state) if fields_op.in_state else {}", "        prev_state = dict(infer_state_of(fields_op.in_state)) if fields_op.in_state else {}", []),
]
_ROCC_OLD = 'def create_pairs(\n    fields_op: accfg.LaunchOp | accfg.SetupOp,\n) -> dict[str, tuple[SSAValue, SSAValue]]:\n    """\n    For a given RoCC launch or setup op, return a map that maps a single RoCC\n    instruction to pairs of two SSAValues\n\n    For setup ops, this can retrace back previous setup state if necessary\n    (i.e. if one of the two operands of an instruction gets dedupped)\n    """\n    # Make a set of all the unique instruction names in the current operation\n    instructions = set([name[:-4] for name, _ in fields_op.iter_params()])\n    field_dict = dict(fields_op.iter_params())\n\n    # For setup_ops, get the previous setup state, if necessary\n    if isinstance(fields_op, accfg.SetupOp):\n        prev_state = infer_state_of(fields_op.in_state) if fields_op.in_state else {}\n'
_ROCC_NEW = '@cache\ndef known_state(state):\n    return infer_state_of(state)\n\n\ndef create_pairs(\n    fields_op: accfg.LaunchOp | accfg.SetupOp,\n) -> dict[str, tuple[SSAValue, SSAValue]]:\n    instructions = set([name[:-4] for name, _ in fields_op.iter_params()])\n    field_dict = dict(fields_op.iter_params())\n\n    if isinstance(fields_op, accfg.SetupOp):\n        prev_state = known_state(fields_op.in_state) if fields_op.in_state else {}\n        prev_state.update(field_dict)\n        field_dict = prev_state\n'
CASES["C04"] = [c for c in CASES["C04"] if not c[0].startswith("rocc: memoised state")]
CASES["C04"].append(("rocc: memoised previous state overlaid in place", "mutant", ROCCF, "from snaxc.inference.trace_acc_state import infer_state_of\n", "from functools import cache\nfrom snaxc.inference.trace_acc_state import infer_state_of\n", []))
CASES["C04"] = CASES["C04"][:-1]
CASES["C04"].append(("rocc: memoised previous state overlaid in place", "mutant", ROCCF, _ROCC_OLD, "from functools import cache\n\n\n" + _ROCC_NEW, ["C04.shared-state"]))

DMAF = "snaxc/transforms/snax_copy_to_dma.py"
TSLD = "snaxc/dialects/tsl.py"
RTH = "runtime/include/snax_rt.h"

CASES["C05"] = [
    ("reintroduce F-25 (first maximum wins)", "mutant", TSLD, "@revert:47b14e9~1", "", ["C05.seed-extent"]),
    ("2-D call without the repeat operand", "mutant", DMAF, "                    dma_stride_dst.results[0],\n                    dma_stride_bound.results[0],\n                ],", "                    dma_stride_dst.results[0],\n                ],", ["C05.proto"]),
    ("external declaration of the 2-D transfer with 5 inputs", "mutant", DMAF, 'func.FuncOp.external("snax_dma_2d_transfer", 6 * [builtin.IndexType()], [])', 'func.FuncOp.external("snax_dma_2d_transfer", 5 * [builtin.IndexType()], [])', ["C05.proto"]),
    ("C prototype gains a parameter", "mutant", RTH, "                                       size_t dst_stride, size_t repeat) {", "                                       size_t dst_stride, size_t repeat, size_t flags) {", ["C05.proto"]),
    ("1-D call: destination pointer first", "mutant", DMAF, "            func_call = func.CallOp(\"snax_dma_1d_transfer\", [pointer_src, pointer_dst, total_size_op], [])", "            func_call = func.CallOp(\"snax_dma_1d_transfer\", [pointer_dst, pointer_src, total_size_op], [])", ["C05.roles"]),
    ("2-D call in the nest: strides exchanged", "mutant", DMAF, "                        dma_size,\n                        dma_stride_src,\n                        dma_stride_dst,", "                        dma_size,\n                        dma_stride_dst,\n                        dma_stride_src,", ["C05.roles", "C05.nest"]),
    ("destination pointer extracted from the source", "mutant", DMAF, "        pointer_dst = ExtractAlignedPointerAsIndexOp.get(op.destination)", "        pointer_dst = ExtractAlignedPointerAsIndexOp.get(op.source)", ["C05.roles", "C05.mirror"]),
    ("destination steps computed on the source memref", "mutant", DMAF, "tsl_dest.get_step_ops(bound_ops, op.destination, in_bytes=True)", "tsl_dest.get_step_ops(bound_ops, op.source, in_bytes=True)", ["C05.mirror"]),
    ("destination dynamic offset read from the source", "mutant", DMAF, "                offset_op = ExtractStridedMetaDataOp(op.destination)", "                offset_op = ExtractStridedMetaDataOp(op.source)", ["C05.mirror"]),
    ("destination strides extracted from the source type", "mutant", DMAF, "            strides = extract_strides(op.destination.type)", "            strides = extract_strides(op.source.type)", ["C05.mirror", "C05.roles"]),
    ("RemainingStride: destination step from the source table", "mutant", DMAF, "                    step_dst_op=step_ops_dst[key],", "                    step_dst_op=step_ops_src[key],", ["C05.roles"]),
    ("nest: destination pointer advanced by the source step", "mutant", DMAF, "            stride_dst = remaining_strides_list[i].step_dst_op", "            stride_dst = remaining_strides_list[i].step_src_op", ["C05.roles", "C05.mirror", "C05.nest"]),
    ("source offset added in elements", "mutant", DMAF, "            calc_offset_op = MuliOp(el_bytes_op, offset, IndexType())\n            pointer_src = AddiOp(pointer_src, calc_offset_op, IndexType())", "            calc_offset_op = MuliOp(el_bytes_op, offset, IndexType())\n            pointer_src = AddiOp(pointer_src, offset, IndexType())", ["C05.units", "C05.mirror"]),
    ("steps requested in elements", "mutant", DMAF, "tsl_source.get_step_ops(bound_ops, op.source, in_bytes=True)", "tsl_source.get_step_ops(bound_ops, op.source)", ["C05.units", "C05.mirror"]),
    ("DMA size in elements", "mutant", DMAF, "dma_size = ConstantOp.from_int_and_width(lcb[-1].bound * lcb[-1].step * el_bytes, IndexType())", "dma_size = ConstantOp.from_int_and_width(lcb[-1].bound * lcb[-1].step, IndexType())", ["C05.units"]),
    ("get_step_ops ignores in_bytes for static steps", "mutant", TSLD, "                    step_op = ConstantOp.from_int_and_width(stride.step * el_bytes, IndexType())", "                    step_op = ConstantOp.from_int_and_width(stride.step, IndexType())", ["C05.units"]),
    ("strided lowering without the shape test", "mutant", DMAF, "                not op.destination.type.get_shape() == op.source.type.get_shape(),\n", "", ["C05.guards"]),
    ("1-D lowering ignores the destination layout", "mutant", DMAF, "        if not isinstance(op.destination.type.layout, NoneAttr):\n            return\n", "", ["C05.guards"]),
    ("nest: enclosing loops take their bounds in list order", "mutant", DMAF, "            for_loop = scf.ForOp(lower, upper[len(remaining_strides_list) - 2 - i], step, [], region)", "            for_loop = scf.ForOp(lower, upper[i], step, [], region)", ["C05.nest"]),
    ("nest: 2-D repeat taken from the next stride", "mutant", DMAF, "        dma_stride_bound = dma_loop.bound_op\n", "        dma_stride_bound = remaining_strides_list[0].bound_op if remaining_strides_list else dma_loop.bound_op\n", ["C05.nest"]),
    ("nest: innermost loop not advanced", "mutant", DMAF, "        for i in range(len(remaining_strides_list)):\n            next_for_op", "        for i in range(len(remaining_strides_list) - 1):\n            next_for_op", ["C05.nest"]),
    ("nest: increments appended behind the nested loop", "mutant", DMAF, "            for_loop.body.block.insert_ops_before(ops_to_insert_for_loop, for_loop.body.block.first_op)", "            for_loop.body.block.insert_ops_before(ops_to_insert_for_loop, for_loop.body.block.last_op)", ["C05.nest"]),
    ("twin: nest built outermost-first with reversed()", "twin", DMAF, "        for i in range(len(remaining_strides_list) - 1):\n            # other for loops have a region with the previous for loop as body\n            region = Region(Block([for_loop, scf.YieldOp()], arg_types=(IndexType(),)))\n            for_loop = scf.ForOp(lower, upper[len(remaining_strides_list) - 2 - i], step, [], region)",
     "        for outer_bound in reversed(upper[:-1]):\n            # other for loops have a region with the previous for loop as body\n            region = Region(Block([for_loop, scf.YieldOp()], arg_types=(IndexType(),)))\n            for_loop = scf.ForOp(lower, outer_bound, step, [], region)", []),
    ("twin: roles spelled source/destination in the nest", "twin", DMAF, "            stride_dst = remaining_strides_list[i].step_dst_op\n            increment_dst = MuliOp(for_loop.body.block.args[0], stride_dst, IndexType())\n            pointer_dst = AddiOp(pointer_dst, increment_dst, IndexType())\n            ops_to_insert_for_loop.extend([increment_dst, pointer_dst])",
     "            stride_dest = remaining_strides_list[i].step_dst_op\n            increment_dest = MuliOp(for_loop.body.block.args[0], stride_dest, IndexType())\n            pointer_dst = AddiOp(pointer_dst, increment_dest, IndexType())\n            ops_to_insert_for_loop.extend([increment_dest, pointer_dst])", []),
    ("twin: a source-only helper variable is added", "twin", DMAF, "        # step 1: extract base addresses\n", "        src_rank = op.source.type.get_num_dims()\n        assert src_rank > 0\n        # step 1: extract base addresses\n", []),
    ("twin: seed chosen by extent step*bound", "twin", TSLD, "            if (stride.step, bound) > (max_value, max_bound):", "            if stride.step * bound > max_value * max_bound or (stride.step, bound) > (max_value, max_bound):", []),
]

LAYRESF = "snaxc/transforms/dart/dart_layout_resolution.py"
CONVF = "snaxc/transforms/convert_dart_to_snax_stream.py"
ADDEXTF = "snaxc/accelerators/streamers/extensions/add_extension.py"

CASES["C02"] = [
    ("reintroduce F-26 (raw unit responses, offset dropped)", "mutant", LAYRESF, "@revert:27f8d49~1", "", ["C02.offset"]),
    ("reintroduce F-27 (TSL map ignores the offset)", "mutant", TSLD, "        result = AffineConstantExpr(self.data.offset)", "        result = AffineConstantExpr(0)", ["C02.offset", "C02.tsl-affine"]),
    ("offset subtracted but never added to the pointers", "mutant", LAYRESF, "            if offset != 0:\n                offset_op", "            if False:\n                offset_op", []),
    ("layout of another operand", "mutant", LAYRESF, "            assert isinstance(memref_type := op.operands[operand].type, MemRefType)", "            assert isinstance(memref_type := op.operands[0].type, MemRefType)", ["C02.operand"]),
    ("schedule pattern of the previous operand", "mutant", LAYRESF, "schedule[operand].pattern.to_affine_map()", "schedule[operand - 1].pattern.to_affine_map()", ["C02.operand"]),
    ("streamer of operand 0 for every operand", "mutant", CONVF, "            for spat_size in streamers[operand].spatial_dims:", "            for spat_size in streamers[0].spatial_dims:", ["C02.operand"]),
    ("bound read one dimension further out", "mutant", CONVF, "(int(pattern.A[0, i]), op.bounds.data[i].value.data)", "(int(pattern.A[0, i]), op.bounds.data[max(i - 1, 0)].value.data)", ["C02.operand"]),
    ("relevance from the resolved strides", "mutant", CONVF, "            relevant += template[operand].pattern.A.any(axis=0).tolist()", "            relevant += (pattern.A[0, -template.num_dims :] != 0).tolist()", ["C02.relevance"]),
    ("relevance from the template of operand 0", "mutant", CONVF, "            relevant += template[operand].pattern.A.any(axis=0).tolist()", "            relevant += template[0].pattern.A.any(axis=0).tolist()", ["C02.relevance", "C02.operand"]),
    ("gemmx i32 matmul: result streamer 3 instead of 4", "mutant", GEMMX, "                streamers = [self.streamer_config.data.streamers[i] for i in (0, 1, 4)]", "                streamers = [self.streamer_config.data.streamers[i] for i in (0, 1, 3)]", ["C02.routing"]),
    ("gemmx i8 gemm: D8 pattern left at the end", "mutant", GEMMX, "                snax_stride_patterns.insert(2, d8_pattern)\n                new_inputs.insert(2, d8_input)", "                snax_stride_patterns.insert(3, d8_pattern)\n                new_inputs.insert(2, d8_input)", ["C02.routing"]),
    ("gemmx simd: D8 and C not flipped for the pointers", "mutant", GEMMX, "            new_inputs.append(new_inputs.pop(2))\n", "", ["C02.routing"]),
    ("gemmx i32 gemm: empty pattern inserted behind C", "mutant", GEMMX, "            if op.body.block.arg_types[-1] == dart.StreamType(builtin.IntegerType(32)):\n                snax_stride_patterns.insert(2, empty_pattern)\n                new_inputs.insert(2, op.inputs[-1])", "            if op.body.block.arg_types[-1] == dart.StreamType(builtin.IntegerType(32)):\n                snax_stride_patterns.insert(3, empty_pattern)\n                new_inputs.insert(2, op.inputs[-1])", ["C02.routing"]),
    ("add extension: writer gets the second input's pattern", "mutant", ADDEXTF, "        new_stride_patterns = [new_stride_pattern, snax_stride_patterns[-1]]", "        new_stride_patterns = [new_stride_pattern, snax_stride_patterns[1]]", ["C02.routing"]),
    ("new op takes the untouched operands", "mutant", CONVF, "            inputs=new_inputs,\n            outputs=new_outputs,", "            inputs=op.inputs,\n            outputs=op.outputs,", ["C02.routing"]),
    ("TSL map: divisor includes the own bound", "mutant", TSLD, "                fdiv = prod([stride.bound for stride in strides[depth + 1 :] if stride.bound])", "                fdiv = prod([stride.bound for stride in strides[depth:] if stride.bound])", ["C02.tsl-affine"]),
    ("TSL map: modulus taken for the outermost level only", "mutant", TSLD, "                if depth > 0:\n                    result += step * ((AffineDimExpr(dim) % mod) // fdiv)\n                else:\n                    result += step * (AffineDimExpr(dim) // fdiv)", "                if depth == 0:\n                    result += step * ((AffineDimExpr(dim) % mod) // fdiv)\n                else:\n                    result += step * (AffineDimExpr(dim) // fdiv)", ["C02.tsl-affine"]),
    ("TSL map: step of the neighbouring level", "mutant", TSLD, "                assert (step := self.data.get_stride(dim, depth).step)\n                if depth > 0:", "                assert (step := self.data.get_stride(dim, max_depth - 1 - depth).step)\n                if depth > 0:", ["C02.tsl-affine"]),
    ("twin: TSL map written with running tile sizes", "twin", TSLD,
     "        for dim in range(self.data.dimension()):\n            max_depth = self.data.tstrides[dim].depth()\n            for depth in range(max_depth):\n                strides = self.data.tstrides[dim].strides\n                mod = prod([stride.bound for stride in strides[depth:] if stride.bound])\n                fdiv = prod([stride.bound for stride in strides[depth + 1 :] if stride.bound])\n                assert (step := self.data.get_stride(dim, depth).step)\n                if depth > 0:\n                    result += step * ((AffineDimExpr(dim) % mod) // fdiv)\n                else:\n                    result += step * (AffineDimExpr(dim) // fdiv)\n",
     "        for dim, tstride in enumerate(self.data.tstrides):\n            tile_sizes = [1]\n            for stride in reversed(tstride.strides[1:]):\n                assert stride.bound\n                tile_sizes.insert(0, tile_sizes[0] * stride.bound)\n            for (depth, stride), tile_size in zip(tstride, tile_sizes):\n                assert (step := stride.step)\n                index = AffineDimExpr(dim)\n                if depth > 0:\n                    assert stride.bound\n                    index = index % (tile_size * stride.bound)\n                result += step * (index // tile_size)\n", []),
    ("twin: origin response spelled with a comprehension", "twin", LAYRESF, "            offset = access_mem_map.eval([0] * access_mem_map.num_dims, ())[0]", "            offset = access_mem_map.eval([0 for _ in range(access_mem_map.num_dims)], ())[0]", []),
    ("twin: gemmx i8 gemm routed with explicit indices", "twin", GEMMX, "                d8_pattern = snax_stride_patterns.pop()\n                d8_input = new_outputs.pop()\n                snax_stride_patterns.insert(2, d8_pattern)\n                new_inputs.insert(2, d8_input)", "                d8_pattern = snax_stride_patterns.pop(3)\n                d8_input = new_outputs.pop(0)\n                snax_stride_patterns = [*snax_stride_patterns[:2], d8_pattern, *snax_stride_patterns[2:]]\n                new_inputs = [*new_inputs[:2], d8_input, *new_inputs[2:]]", []),
]
CASES["C02"] = [c for c in CASES["C02"] if c[0] != "offset subtracted but never added to the pointers"] + [
    ("offset subtracted but never added to the pointers", "mutant", LAYRESF, "        for operand, offset in zip(op.operands, offsets):\n            pointer: Operation = memref.ExtractAlignedPointerAsIndexOp.get(operand)\n            pointer_ops.append(pointer)\n            if offset != 0:\n                offset_op = arith.ConstantOp.from_int_and_width(offset, IndexType())\n                pointer = arith.AddiOp(pointer, offset_op, IndexType())\n                pointer_ops.extend([offset_op, pointer])\n            pointers.append(pointer)",
     "        for operand in op.operands:\n            pointer: Operation = memref.ExtractAlignedPointerAsIndexOp.get(operand)\n            pointer_ops.append(pointer)\n            pointers.append(pointer)", ["C02.offset"]),
]

TSLIR = "snaxc/ir/tsl/tiled_strided_layout.py"
CASES["C05"] += [
    ("twin: F-28 repaired (search ends at a dynamic stride)", "twin", TSLIR, "                if stride_self.step is None or stride_self.bound is None:\n                    current_stride = None\n", "                if stride_self.step is None or stride_self.bound is None:\n                    return result\n", []),
]

M2AF = "snaxc/transforms/convert_memref_to_arith.py"
M2SF = "snaxc/transforms/memref_to_snax.py"
CASTSF = "snaxc/transforms/realize_memref_casts.py"
CASES["C10"] += [
    ("subview: k-th dynamic offset paired with dimension k", "mutant", M2AF, "list(zip(subview.offsets, dynamic_index_list))", "[(offset, index) for index, offset in enumerate(subview.offsets)]", ["C10.subview-pointer"]),
    ("subview: offset divided by the whole dimension's tile product", "mutant", M2AF, "for stride in source_type.layout.data.tstrides[index].strides[1:])", "for stride in source_type.layout.data.tstrides[index].strides)", ["C10.subview-pointer"]),
    ("subview: innermost step instead of the outermost", "mutant", M2AF, "            stride = source_type.layout.data.tstrides[index].strides[0].step", "            stride = source_type.layout.data.tstrides[index].strides[-1].step", ["C10.subview-pointer"]),
    ("twin: subview dimension list built with a loop", "twin", M2AF, "        dynamic_index_list = [i for i, offset in enumerate(static_offsets) if offset == DYNAMIC_INDEX]\n", "        dynamic_index_list = []\n        for dim_no, static_offset_ in enumerate(static_offsets):\n            if static_offset_ == DYNAMIC_INDEX:\n                dynamic_index_list.append(dim_no)\n", []),
]
CASES["C11"] += [
    ("alloc: dynamic sizes taken from the back", "mutant", M2SF, "                shape_ops.append(alloc_args.pop(0))", "                shape_ops.append(alloc_args.pop())", ["C11.dynamic-sizes"]),
    ("alloc: dynamic operand consumed for every dimension", "mutant", M2SF, "            if shape.data == DYNAMIC_INDEX:\n                # dynamic op\n                shape_ops.append(alloc_args.pop(0))", "            if alloc_args:\n                # dynamic op\n                shape_ops.append(alloc_args.pop(0))", ["C11.dynamic-sizes"]),
]
CASES["C12"] += [
    ("realised buffer: dim operand index counts dynamic dims", "mutant", CASTSF, "                index = arith.ConstantOp.from_int_and_width(i, builtin.IndexType())\n                dim_op = memref.DimOp.from_source_and_index(source_op.source, index.result)", "                index = arith.ConstantOp.from_int_and_width(len(dyn_operands), builtin.IndexType())\n                dim_op = memref.DimOp.from_source_and_index(source_op.source, index.result)", ["C12.alloc-dyn-sizes"]),
    ("realised buffer: a size operand for every dimension", "mutant", CASTSF, "            if shapes[i] == builtin.DYNAMIC_INDEX:\n                ## create dim op", "            if shapes[i] != 1:\n                ## create dim op", ["C12.alloc-dyn-sizes"]),
]
CASES["C06"] += [
    ("block level: all other users launches, setup behind uses[0]", "mutant", "snaxc/transforms/accfg_config_overlap.py", "@patch:seeded/C06-d/patch.diff", "", ["C06.block-guards"]),
]

# every kept seeded change (seeded/<id>/patch.diff, produced by sub-agents that saw only the property text) is also a mutant:
# it must be reported by one of the rules recorded in seeded/RESULTS.json when the change was last run
def _seeded_cases() -> None:
    import json as _json
    import pathlib as _pl

    root = _pl.Path(__file__).resolve().parent.parent / "seeded"
    res_f = root / "RESULTS.json"
    if not res_f.exists():
        return
    res = _json.loads(res_f.read_text())
    for sid, r in sorted(res.items()):
        d = root / sid
        if not (d / "patch.diff").exists() or not (d / "meta.json").exists() or not r.get("rules"):
            continue
        meta = _json.loads((d / "meta.json").read_text())
        files = [f for f in meta.get("files", []) if f.endswith(".py")]
        if not files:
            continue
        prop = r.get("property") or sid.split("-")[0]
        name = f"seeded change {sid}"
        CASES.setdefault(prop, [])
        if any(c[0] == name or (c[3] == f"@patch:seeded/{sid}/patch.diff") for c in CASES[prop]):
            continue
        CASES[prop].append((name, "mutant", files[0], f"@patch:seeded/{sid}/patch.diff", "", list(r["rules"])))


_seeded_cases()


def _refactoring_twins() -> None:
    """behaviour-preserving refactorings written by independent sub-agents (seeded/<id>-rf-<v>/): the check must stay silent on them.
    Those on which a check still fails closed (exit 2, see DESIGN.md 10.10) are kept on disk but not loaded."""
    import json as _json
    import pathlib as _pl

    root = _pl.Path(__file__).resolve().parent.parent / "seeded"
    for d in sorted([*root.glob("C??-rf-?"), *root.glob("C??-rg-?"), *root.glob("C??-rh-?"), *root.glob("C??-ri-?"), *root.glob("C??-rj-?"), *root.glob("C??-rk-?")]):
        mf = d / "meta.json"
        if not mf.exists() or not (d / "patch.diff").exists():
            continue
        meta = _json.loads(mf.read_text())
        if meta.get("kind") != "refactoring" or meta.get("check_exit_when_kept") != 0:
            continue
        files = [f for f in meta.get("files", []) if isinstance(f, str) and f.endswith(".py")]
        if not files:
            import re as _re
            files = _re.findall(r"^\+\+\+ b/(\S+\.py)", (d / "patch.diff").read_text(), flags=_re.M)
        if not files:
            continue
        prop = d.name.split("-")[0]
        CASES.setdefault(prop, []).append((f"refactoring {d.name}", "twin", files[0], f"@patch:seeded/{d.name}/patch.diff", "", []))


_refactoring_twins()

CASES["C03"] += [
    ("twin: rotate returns self for the identity rotation", "twin", "snaxc/ir/dart/access_pattern.py", "        new_bounds = self.bounds[1:dim] + self.bounds[:1] + self.bounds[dim:]", "        if dim <= 1:\n            return self\n        new_bounds = self.bounds[1:dim] + self.bounds[:1] + self.bounds[dim:]", []),
]

CASES["C06"] += [
    ("reintroduce F-29 (producers with regions moved)", "mutant", "snaxc/inference/scoped_setups.py", "@revert:8916250~1", "", ["C06.closure-pure"]),
]

CASES["C07"] += [
    ("reintroduce F-30 (setups in unknown region ops invisible outside)", "mutant", "snaxc/transforms/convert_linalg_to_accfg.py", "@revert:12f8e19~1", "", ["C07.weave-nested"]),
    ("twin: nested accelerators dropped with del", "twin", "snaxc/transforms/convert_linalg_to_accfg.py", "                        for accel in find_all_acc_names_in_region(region):\n                            state.pop(accel, None)", "                        for accel in find_all_acc_names_in_region(region):\n                            if accel in state:\n                                del state[accel]", []),
]

CASES["C07"] += [
    ("reintroduce F-31 (stale pre-threaded in_state kept)", "mutant", "snaxc/transforms/convert_linalg_to_accfg.py", "@revert:3b5c6cd~1", "", ["C07.weave-link"]),
]

CASES["C09"] += [
    ("reintroduce F-32 (uncovered dimensions get bound 1)", "mutant", "snaxc/transforms/set_memory_layout.py", "@revert:ec486c0~1", "", ["C09.radix"]),
    ("cover: remaining stride inserted without advancing the extent", "mutant", "snaxc/transforms/set_memory_layout.py", "                    stride.insert(0, Stride(current_stride, remaining))\n                    current_stride = current_stride * remaining\n", "                    stride.insert(0, Stride(current_stride, remaining))\n", ["C09.radix"]),
]

BARRIERF = "snaxc/transforms/insert_sync_barrier.py"
_C13_HELPER_BAD = 'def only_reads(op, value) -> bool:\n    from xdsl.dialects import linalg\n    from xdsl.dialects.memref import CopyOp\n    if isinstance(op, CopyOp):\n        return value is op.source\n    if isinstance(op, linalg.GenericOp):\n        return value in op.inputs\n    return False\n\n\nclass InsertSyncBarrier(ModulePass):'
_C13_HELPER_GOOD = 'def only_reads(op, value) -> bool:\n    from xdsl.dialects import linalg\n    from xdsl.dialects.memref import CopyOp\n    if isinstance(op, CopyOp):\n        return value is op.source\n    if isinstance(op, linalg.GenericOp):\n        return value in op.inputs and value not in op.outputs\n    return False\n\n\nclass InsertSyncBarrier(ModulePass):'
_C13_LOOP_OLD = "                for op_use in operand.uses:\n                    # now check if op is dispatched to a specific core and the result"
_C13_LOOP_NEW = "                for op_use in operand.uses:\n                    if only_reads(op_in_module, operand) and only_reads(op_use.operation, operand):\n                        continue\n                    # now check if op is dispatched to a specific core and the result"
# two edits in one file: expressed through the @patch form for the unsound variant (the kept seed), and as a twin via two-step text
CASES["C13"] += [
    ("read/read pairs skipped for one side only", "mutant", BARRIERF, _C13_LOOP_OLD, "                for op_use in operand.uses:\n                    if operand not in getattr(op_in_module, 'outputs', ()):\n                        continue\n                    # now check if op is dispatched to a specific core and the result", ["C13.every-pair"]),
    ("dispatch tests nested under a same-block condition", "mutant", BARRIERF, "                    if dispatch_to_dm(op_in_module, ctx) and not dispatch_to_dm(op_use.operation, ctx):\n                        ops_to_sync.append(op_use.operation)\n                        if op_in_module.parent_op() == op_use.operation.parent_op() and isinstance(\n                            for_op := op_in_module.parent_op(), scf.ForOp\n                        ):\n                            assert isinstance(for_op.body.block.last_op, scf.YieldOp)\n                            ops_to_sync.append(for_op.body.block.last_op)\n\n                    if dispatch_to_compute",
     "                    if op_use.operation.parent_block() is op_in_module.parent_block():\n                      if dispatch_to_dm(op_in_module, ctx) and not dispatch_to_dm(op_use.operation, ctx):\n                        ops_to_sync.append(op_use.operation)\n                        if op_in_module.parent_op() == op_use.operation.parent_op() and isinstance(\n                            for_op := op_in_module.parent_op(), scf.ForOp\n                        ):\n                            assert isinstance(for_op.body.block.last_op, scf.YieldOp)\n                            ops_to_sync.append(for_op.body.block.last_op)\n\n                    if dispatch_to_compute", ["C13.every-pair", "C13.symmetric"]),
]

CASES["C12"] += [
    ("reintroduce F-33 (cast re-used where it is not visible)", "mutant", "snaxc/transforms/set_memory_space.py", "@revert:b77f530~1", "", ["C12.l1"]),
]

CASES["C12"] += [
    ("reintroduce F-34 (copy-in in front of the first reader)", "mutant", "snaxc/transforms/realize_memref_casts.py", "@revert:e5bf6a4~1", "", ["C12.copy-in"]),
]

CASES["C12"] += [
    ("reintroduce F-35 (round-trip chain replaced by the intermediate)", "mutant", "snaxc/transforms/realize_memref_casts.py", "@revert:bb82659~1", "", ["C12.chain"]),
]

CASES["C19"] += [
    ("from_affine_map: only the top-level kind is tested", "mutant", "snaxc/ir/dart/affine_transform.py", "            for expr in result.dfs():\n                if isinstance(expr, AffineBinaryOpExpr):", "            for expr in [result]:\n                if isinstance(expr, AffineBinaryOpExpr):", ["C19.transform-linear"]),
    ("from_affine_map: mod no longer refused", "mutant", "snaxc/ir/dart/affine_transform.py", "                        AffineBinaryOpKind.CeilDiv,\n                        AffineBinaryOpKind.Mod,\n", "                        AffineBinaryOpKind.CeilDiv,\n", ["C19.transform-linear"]),
]

CASES["C08"] += [
    ("launch path packs shifts most-significant first", "mutant", GEMMX, "                shift_bitlist = list(pack_bitlist(shifts[j : j + 4][::-1], (24, 16, 8, 0)))", "                shift_bitlist = list(pack_bitlist(shifts[j : j + 4], (24, 16, 8, 0)))", ["C08.shift-packing"]),
    ("twin: setup path packs with ascending offsets", "twin", GEMMX, "                    shift_bitlist = list(pack_bitlist(shifts[i : i + 4][::-1], (24, 16, 8, 0)))", "                    shift_bitlist = list(pack_bitlist(shifts[i : i + 4], (0, 8, 16, 24)))", []),
]
CASES["C05"] += [
    ("destination layout rebuilt without its offset", "mutant", DMAF, "            tsl_dest = TiledStridedLayoutAttr(TiledStridedLayout.from_strides(strides, tile_bounds, offset))", "            tsl_dest = TiledStridedLayoutAttr(TiledStridedLayout.from_strides(strides, tile_bounds))", ["C05.layout-offset", "C05.mirror"]),
]

COMBINEF = "snaxc/phs/combine.py"
SCHEDF2 = "snaxc/ir/dart/scheduler.py"
CASES["C20"] += [
    ("merge: new mux without its own switch", "mutant", COMBINEF, "                switch=abstract_graph.add_switch(),  # extra switch to control input", "                switch=abstract_graph.body.block.args[-1],  # extra switch to control input", ["C20.merge"]),
    ("merge: default and conflicting connection exchanged", "mutant", COMBINEF, "                lhs=abst_opnd,  # this is the default connection\n                rhs=equivalent_owner,  # this is the conflicting connection", "                lhs=equivalent_owner,  # this is the default connection\n                rhs=abst_opnd,  # this is the conflicting connection", ["C20.merge"]),
    ("merge: operand 0 rerouted whatever the conflicting slot", "mutant", COMBINEF, "            abst_op.operands[i] = mux.results[0]", "            abst_op.operands[0] = mux.results[0]", ["C20.merge"]),
    ("merge: terminator routing not uncollided", "mutant", COMBINEF, "            uncollide_inputs(op, abstract_graph.get_terminator())", "            pass", ["C20.merge"]),
    ("twin: merge loop variables renamed", "twin", COMBINEF, "    for i, (opnd, abst_opnd) in enumerate(zip(op.data_operands, abst_op.data_operands, strict=True)):\n        if are_equivalent(opnd, abst_opnd):\n            continue\n        else:\n            # Add a mux to the switch\n            equivalent_owner = get_equivalent_owner(opnd, abstract_graph)\n            mux = phs.MuxOp(\n                lhs=abst_opnd,  # this is the default connection\n                rhs=equivalent_owner,  # this is the conflicting connection",
     "    for slot, (mine, theirs) in enumerate(zip(op.data_operands, abst_op.data_operands, strict=True)):\n        i = slot\n        if are_equivalent(mine, theirs):\n            continue\n        else:\n            # Add a mux to the switch\n            equivalent_owner = get_equivalent_owner(mine, abstract_graph)\n            mux = phs.MuxOp(\n                lhs=theirs,  # this is the default connection\n                rhs=equivalent_owner,  # this is the conflicting connection", []),
]
CASES["C16"] += [
    ("spatial unrolling accepted for any non-zero coefficient", "mutant", SCHEDF2, "        spatial = (s.pattern.A[:, -template.num_dims :] == 1).any(axis=1)", "        spatial = (s.pattern.A[:, -template.num_dims :] != 0).any(axis=1)", ["C16.flexibility"]),
]
CASES["C02"] += [
    ("pointer moved by the layout's origin only", "mutant", LAYRESF, "        for operand, offset in zip(op.operands, offsets):\n            pointer: Operation", "        for operand in op.operands:\n            offset = operand.type.get_affine_map_in_bytes().eval([0] * operand.type.get_num_dims(), ())[0]\n            pointer: Operation", ["C02.offset"]),
    ("stride canonicalisation folds on the outer stride", "mutant", "snaxc/dialects/snax_stream.py", "@patch:seeded/C02-c/patch.diff", "", ["C02.stride-canon"]),
]

CASES["C08"] += [
    ("reintroduce F-36 (xDMA masks follow the last operand's zero pattern)", "mutant", "snaxc/accelerators/snax_xdma.py", "@revert:b5e47e4~1", "", ["C08.per-streamer-fresh"]),
]

CASES["C07"] += [
    ("reintroduce F-37 (state carried into sibling regions / blocks)", "mutant", "snaxc/transforms/convert_linalg_to_accfg.py", "@revert:cc67a9a~1", "", ["C07.weave-regions"]),
]

CASES["C04"] += [
    ("reintroduce F-38 (registered factories bind the loop variable late)", "mutant", "snaxc/tools/config_parser.py", "@revert:2a8c6a9~1", "", ["C04.registry-binding"]),
]

CASES["C20"] += [
    ("reintroduce F-39 (choose regions map operands by value)", "mutant", "snaxc/dialects/phs.py", "@revert:7151afe~1", "", ["C20.region-operands"]),
]


CASES["C17"] += [
    ("reintroduce F-40 (dim of a rank-reducing subview resolved through the sizes by result index)", "mutant", "snaxc/transforms/reuse_memref_allocs.py", "@revert:4f53ceb~1", "", ["C17.subview-rank"]),
    ("rank guard compares the result with itself", "mutant", "snaxc/transforms/reuse_memref_allocs.py",
     "if memref_op.result.type.get_num_dims() != len(memref_op.static_sizes.get_values()):", "if memref_op.result.type.get_num_dims() != len(memref_op.result.type.get_shape()):", ["C17.subview-rank"]),
]

CASES["C07"] += [
    ("a field missing on one side counts as agreeing in state_intersection", "mutant", "snaxc/inference/trace_acc_state.py",
     "return {k: a[k] for k in a if a[k] == b.get(k)}", "return {k: a[k] for k in a if a[k] == b.get(k, a[k])}", ["C07.intersection"]),
]

CASES["C11"] += [
    ("only memref-typed results of casts are followed for lifetimes", "mutant", "snaxc/transforms/snax_allocate.py",
     "                    for result in use.operation.results:\n                        yield from get_all_uses(result)",
     "                    for result in use.operation.results:\n                        if isinstance(result.type, builtin.MemRefType):\n                            yield from get_all_uses(result)", ["C11.lifetime"]),
]

CASES["C19"] += [
    ("dynamic bounds dropped by AccessPattern.canonicalize", "mutant", "snaxc/ir/dart/access_pattern.py",
     "self.pattern.A[:, [bound != 1 for bound in self.bounds]]", "self.pattern.A[:, [bound is not None and bound > 1 for bound in self.bounds]]", ["C19.pattern-canon"]),
    ("inner_dims slices bounds and columns differently", "mutant", "snaxc/ir/dart/access_pattern.py",
     "AffineTransform(self.pattern.A[:, -dim:], self.pattern.b),", "AffineTransform(self.pattern.A[:, :dim], self.pattern.b),", ["C19.inner-dims"]),
]

CASES["C08"] += [
    ("gemmx looks for the rescale right behind the matmul", "mutant", "snaxc/accelerators/snax_gemmx.py",
     "if isinstance(region_yield.prev_op, dart.GenericOp) and isinstance(\n                    rescale_op := region_yield.prev_op.body.block.first_op,",
     "if isinstance(generic_op.next_op, dart.GenericOp) and isinstance(\n                    rescale_op := generic_op.next_op.body.block.first_op,", ["C08.rescale-source"]),
]

CASES["C10"] += [
    ("reintroduce F-41 (static subview offsets ignored, pointer replaced by the element-size constant)", "mutant", "snaxc/transforms/convert_memref_to_arith.py", "@revert:c599cb9~1", "", ["C10.subview-pointer"]),
    ("subview pointer replaced by the last new op again", "mutant", "snaxc/transforms/convert_memref_to_arith.py",
     "rewriter.replace_op(op, ops_to_add, [aligned_pointer.results[0]])", "rewriter.replace_op(op, ops_to_add)", ["C10.subview-pointer"]),
    ("static offsets of 1 are skipped too", "mutant", "snaxc/transforms/convert_memref_to_arith.py",
     "if static_offset != DYNAMIC_INDEX and static_offset != 0:", "if static_offset != DYNAMIC_INDEX and static_offset > 1:", ["C10.subview-pointer"]),
]

CASES["C14"] += [
    ("xDMA regions recognised by registered name (dm rule)", "mutant", "snaxc/util/dispatching_rules.py",
     "        accelerator_type = ctx.get_acc(op.accelerator.data)\n        if isinstance(accelerator_type, SNAXXDMAAccelerator) and isinstance(\n            str_op := op.body.block.first_op, dart.GenericOp\n        ):\n            kernel_op = str_op.body.block.first_op\n            # Only dispatch",
     "        if op.accelerator.data == SNAXXDMAAccelerator.name and isinstance(\n            str_op := op.body.block.first_op, dart.GenericOp\n        ):\n            kernel_op = str_op.body.block.first_op\n            # Only dispatch", ["C14.xdma-by-type"]),
]

CASES["C18"] += [
    ("dispatch tests the body's last op for the yield", "mutant", "snaxc/transforms/dispatch_kernels.py",
     "if not isinstance(next(linalg_body_ops), linalg.YieldOp):", "if not isinstance(linalg_op.body.block.last_op, linalg.YieldOp):", ["C18.single-kernel"]),
]

CASES["C15"] += [
    ("a buffer seen before in the stage is not recorded again", "mutant", "snaxc/transforms/pipeline/construct_pipeline.py",
     "                def rewrite_operand(operand: Operand, index: int, is_input: bool):\n",
     "                def rewrite_operand(operand: Operand, index: int, is_input: bool):\n                    if operand in input_buffers or operand in output_buffers:\n                        return\n", ["C15.stage-shape"]),
]

CASES["C13"] += [
    ("only results are followed for ops that are not copies", "mutant", "snaxc/transforms/insert_sync_barrier.py",
     "alias for value in [*op_in_module.operands, *op_in_module.results] for alias in aliasing_values(value)", "alias for value in [*op_in_module.results] for alias in aliasing_values(value)", ["C13.every-value"]),
]

CASES["C02"] += [
    ("pointer shift left in elements while strides are scaled to bytes", "mutant", "snaxc/transforms/dart/dart_layout_resolution.py",
     "data_mem_map: AffineMap = memref_type.get_affine_map_in_bytes()", "data_mem_map: AffineMap = memref_type.get_affine_map()", ["C02.offset"]),
]

CASES["C19"] += [
    ("reintroduce F-42 (canonicalize drops empty dimensions)", "mutant", "snaxc/ir/dart/access_pattern.py", "@revert:d1b10f0~1", "", ["C19.pattern-canon"]),
]
CASES["C03"] += [
    ("reintroduce F-42 (canonicalize drops empty dimensions)", "mutant", "snaxc/ir/dart/access_pattern.py", "@revert:d1b10f0~1", "", ["C03.drop-unit"]),
]

CASES["C17"] += [
    ("reintroduce F-43 (dim of the loop's own block argument hoisted)", "mutant", "snaxc/transforms/reuse_memref_allocs.py", "@revert:13e9cf7~1", "", ["C17.block-args"]),
]
CASES["C01"] += [
    ("reintroduce F-44 (a result of the scf.if passes the availability test)", "mutant", "snaxc/transforms/accfg_dedup.py", "@revert:d049b87~1", "", ["C01.hoist-if"]),
]
CASES["C16"] += [
    ("tile_dim is the identity for tile size 1", "mutant", "snaxc/ir/dart/access_pattern.py",
     "        transform_map = AffineTransform.from_affine_map(\n            AffineMap(\n                num_dims=self.num_dims + 1,\n                num_symbols=0,\n                # (d0, d1, d2, ..., dim-1) -> (d0, d1, d2, ..., dim-1)",
     "        if template_bound == 1:\n            return self\n        transform_map = AffineTransform.from_affine_map(\n            AffineMap(\n                num_dims=self.num_dims + 1,\n                num_symbols=0,\n                # (d0, d1, d2, ..., dim-1) -> (d0, d1, d2, ..., dim-1)", ["C16.tile-inserts"]),
]
CASES["C08"] += [
    ("broadcast flag decided by the last spatial dimension", "mutant", "snaxc/accelerators/snax.py",
     "                if stride == 0 and any(isinstance(opt, HasBroadcast) for opt in streamer.opts):\n                    do_broadcast[operand] = True",
     "                do_broadcast[operand] = stride == 0 and any(isinstance(opt, HasBroadcast) for opt in streamer.opts)", ["C08.broadcast-any"]),
    ("twin: broadcast flag or-accumulated", "twin", "snaxc/accelerators/snax.py",
     "                if stride == 0 and any(isinstance(opt, HasBroadcast) for opt in streamer.opts):\n                    do_broadcast[operand] = True",
     "                do_broadcast[operand] = do_broadcast[operand] or (stride == 0 and any(isinstance(opt, HasBroadcast) for opt in streamer.opts))", []),
]
CASES["C19"] += [
    ("collection canonicalised with the first pattern's bounds", "mutant", "snaxc/ir/dart/access_pattern.py",
     "return type(self)(pattern.canonicalize() for pattern in self)", "return self.clear_unused_dims()", ["C19.collection-canon"]),
]
CASES["C14"] += [
    ("a barrier followed by a dispatchable op does not end the group", "mutant", "snaxc/transforms/dispatch_regions.py",
     "            for op in block.walk(region_first=True):\n",
     "            for op in block.walk(region_first=True):\n                if len(ops_to_dispatch) and op.next_op is not None and not dispatch_rule(op) and dispatch_rule(op.next_op):\n                    continue\n", ["C14.no-skip"]),
]
CASES["C09"] += [
    ("tile accepted when it divides the whole dimension", "mutant", "snaxc/transforms/set_memory_layout.py",
     "if size_remaining % schedule_bound != 0:", "if memref_type.get_shape()[accessed_dim] % schedule_bound != 0:", ["C09.radix"]),
]

CASES["C12"] += [
    ("reintroduce F-45 (a global with a layout is transformed again)", "mutant", "snaxc/transforms/realize_memref_casts.py", "@revert:d2a57a7~1", "", ["C12.const-guards"]),
]

CASES["C12"] += [
    ("reintroduce F-46 (constants re-laid-out into a layout with an offset)", "mutant", "snaxc/transforms/realize_memref_casts.py", "@revert:8ce5ce3~1", "", ["C12.const-guards"]),
]

CASES["C08"] += [
    ("reintroduce F-47 (alu / phs loop count = first temporal bound)", "mutant", "snaxc/accelerators/snax_alu.py", "@revert:53cc874~1", "", ["C08.loop-count"]),
]

# ----- round 7: defects noted by the seeding agents as pre-existing, repaired in /repo
CASES["C12"] += [
    ("reintroduce F-48 (constant / global re-laid-out although it has users that are not casts)", "mutant", "snaxc/transforms/realize_memref_casts.py", "@revert:9e12e08~1", "", ["C12.const-guards"]),
    ("ApplyLayoutCastSubviewGlobal: the global's new layout drops the target offset", "mutant", "snaxc/transforms/realize_memref_casts.py",
     "TiledStridedLayoutAttr(TiledStridedLayout(new_tstrides, layout.data.offset))", "TiledStridedLayoutAttr(TiledStridedLayout(new_tstrides))", ["C12.const-guards"]),
]
CASES["C07"] += [
    ("reintroduce F-50 (pre-threaded loop keeps its stale yield operand)", "mutant", "snaxc/transforms/convert_linalg_to_accfg.py", "@revert:64d8eca~1", "", ["C07.weave-loop-yield"]),
]
CASES["C14"] += [
    ("reintroduce F-51 (dispatch_to_compute declines on any(not match))", "mutant", "snaxc/util/dispatching_rules.py", "@revert:6d73a87~1", "", ["C14.disjoint"]),
    ("move loop drains the pending list from the back", "mutant", "snaxc/transforms/dispatch_regions.py",
     "                    for dispatch_op in ops_to_dispatch:\n", "                    while ops_to_dispatch:\n                        dispatch_op = ops_to_dispatch.pop()\n", ["C14.wrap"]),
    ("twin: move loop drains the pending list from the front", "twin", "snaxc/transforms/dispatch_regions.py",
     "                    for dispatch_op in ops_to_dispatch:\n", "                    while ops_to_dispatch:\n                        dispatch_op = ops_to_dispatch.pop(0)\n", []),
    ("a SupportedKernel built from a one-shot iterator", "mutant", "snaxc/accelerators/streamers/extensions/rescale_extension.py",
     "SupportedKernel(kernel.RescaleOp, [i8, i32])", "SupportedKernel(kernel.RescaleOp, reversed([i32, i8]))", ["C14.kernel-tables"]),
]
CASES["C17"] += [
    ("trip count through a float quotient", "mutant", "snaxc/transforms/pipeline/pipeline_canonicalize_for.py", "-(-ub // step)", "__import__('math').ceil(ub / step)", ["C17.trip-count"]),
]
CASES["C19"] += [
    ("compose returns self when the other matrix is the identity (translation ignored)", "mutant", "snaxc/ir/dart/affine_transform.py",
     "        new_A = self.A @ other.A\n", "        if (other.A == np.eye(other.A.shape[0])).all() and other.A.shape[0] == other.A.shape[1]:\n            return self\n        new_A = self.A @ other.A\n", ["C19.compose"]),
    ("twin: compose returns self when the other transform is the identity function (matrix and translation tested)", "twin", "snaxc/ir/dart/affine_transform.py",
     "        new_A = self.A @ other.A\n", "        if other.A.shape[0] == other.A.shape[1] and (other.A == np.eye(other.A.shape[0])).all() and not other.b.any():\n            return self\n        new_A = self.A @ other.A\n", []),
]
CASES["C08"] += [
    ("verifier measures the canonical stride pattern", "mutant", "snaxc/dialects/snax_stream.py", "if len(stride_pattern.temporal_strides) > streamer.temporal_dim:",
     "if len(stride_pattern.canonicalize().temporal_strides) > streamer.temporal_dim:", ["C08.dims-verified"]),
]
CASES["C18"] += [
    ("blocks compared as multisets of op types", "mutant", "snaxc/transforms/convert_linalg_to_kernel.py",
     "    for op_a, op_b in zip(block_a.ops, block_b.ops, strict=True):\n        if type(op_a) is not type(op_b):\n            return False\n\n    return True\n",
     "    return sorted(type(o).__name__ for o in block_a.ops) == sorted(type(o).__name__ for o in block_b.ops)\n", ["C18.all-ops"]),
]
CASES["C06"] += [
    ("twin: loop-level overlap refused while the loop's state result has users (F-49 repaired conservatively)", "twin", "snaxc/transforms/accfg_config_overlap.py",
     "        # also, if there is another launch between us and the loop start, abort\n",
     "        if for_op.results[iter_arg_idx].uses.get_length() != 0:\n            return\n        # also, if there is another launch between us and the loop start, abort\n", []),
]
CASES["C12"] += [
    ("reintroduce F-52 (cast chain fused across a cast with other users)", "mutant", "snaxc/transforms/realize_memref_casts.py", "@revert:bf1360a~1", "", ["C12.chain"]),
]
CASES["C13"] += [
    ("reintroduce F-53 (every barrier empties the pending list)", "mutant", "snaxc/transforms/insert_sync_barrier.py", "@revert:b9ac12d~1", "", ["C13.barrier-scope"]),
]
CASES["C11"] += [
    ("reintroduce F-55 (expand_shape / collapse_shape views not followed)", "mutant", "snaxc/transforms/snax_allocate.py", "@revert:ab213d3~1", "", ["C11.lifetime"]),
]
CASES["C13"] += [
    ("reintroduce F-54 (no alias closure: only the op's own values are scanned)", "mutant", "snaxc/transforms/insert_sync_barrier.py", "@revert:03e688f~1", "", ["C13.alias-closure"]),
]
CASES["C04"] += [
    ("reintroduce F-56 (RoCC partners traced while the lowering erases setups)", "mutant", "snaxc/transforms/convert_accfg_to_csr.py", "@revert:a5750d5~1", "", ["C04.retrace-intact"]),
]
CASES["C17"] += [
    ("reintroduce F-57 (loops with negative upper bounds merged)", "mutant", "snaxc/transforms/pipeline/pipeline_canonicalize_for.py", "@revert:1d46a6e~1", "", ["C17.merge-guards"]),
]
CASES["C03"] += [
    ("reintroduce F-58 (rotate(0) duplicates dimension 0)", "mutant", "snaxc/ir/dart/access_pattern.py", "@revert:f9f6d6f~1", "", ["C03.rotate"]),
]
CASES["C11"] += [
    ("reintroduce F-59 (minimalloc offsets added to an unaligned memory.start)", "mutant", "snaxc/transforms/snax_allocate.py", "@revert:8c368e2~1", "", ["C11.lifetime"]),
]
# session of 2026-09-26 22:00 UTC (round 9)
CASES["C12"] += [
    ("twin: transpose spelled np.moveaxis(x, order, range(n))", "twin", "snaxc/transforms/realize_memref_casts.py",
     "values = values.reshape(bounds).transpose(order[::-1])", "values = np.moveaxis(values.reshape(bounds), order[::-1], range(len(bounds)))", []),
    ("inverse permutation: np.moveaxis(x, range(n), order)", "mutant", "snaxc/transforms/realize_memref_casts.py",
     "values = values.reshape(bounds).transpose(order[::-1])", "values = np.moveaxis(values.reshape(bounds), range(len(bounds)), order[::-1])", ["C12.const-permutation"]),
]
CASES["C20"] += [
    ("valid_mapping passes over the terminator", "mutant", "snaxc/phs/decode.py",
     "            abst_op = abstract_graph.get_terminator()\n", "            abst_op = abstract_graph.get_terminator()\n            continue\n", ["C20.valid-mapping"]),
    ("rerouting by value (replace_uses_with_if on the consumer)", "mutant", "snaxc/phs/combine.py",
     "            abst_op.operands[i] = mux.results[0]", "            abst_opnd.replace_uses_with_if(mux.results[0], lambda use: use.operation is abst_op)", ["C20.merge"]),
]

"""Mutant / twin inventory per property (DESIGN.md section 7).  Text edits with a uniqueness check."""

TRACE = "snaxc/inference/trace_acc_state.py"
HELPERS = "snaxc/inference/helpers.py"
WEAVE = "snaxc/transforms/convert_linalg_to_accfg.py"
CANON = "snaxc/transforms/pipeline/pipeline_canonicalize_for.py"
REUSE = "snaxc/transforms/reuse_memref_allocs.py"

CASES: dict[str, list[tuple]] = {}

CASES["C07"] = [
    ("reintroduce F-1/F-1b (pre-fix infer_state_of)", "mutant", TRACE, "@revert:139cd1d", "", ["C07.loop-head", "C07.loop-result"]),
    ("reintroduce F-2/F-3 (pre-fix weave)", "mutant", WEAVE, "@revert:139cd1d", "", ["C07.weave-kill"]),
    ("loop-head: drop effects guard", "mutant", TRACE,
     "                    if has_accfg_effects(for_op):\n                        return {}\n", "", ["C07.loop-head"]),
    ("loop-head: drop body scan", "mutant", TRACE,
     "                            if name in state and state[name] != val:\n                                del state[name]\n",
     "                            pass\n", ["C07.loop-head"]),
    ("loop-result: yield only", "mutant", TRACE,
     "return state_intersection(infer_state_of(yield_op.operands[idx]), infer_state_of(for_op.iter_args[idx]))",
     "return infer_state_of(yield_op.operands[idx])", ["C07.loop-result"]),
    ("loop-result: init only", "mutant", TRACE,
     "return state_intersection(infer_state_of(yield_op.operands[idx]), infer_state_of(for_op.iter_args[idx]))",
     "return infer_state_of(for_op.iter_args[idx])", ["C07.loop-result"]),
    ("intersection -> keys only", "mutant", TRACE, "if a[k] == b.get(k)}", "if k in b}", ["C07.intersection"]),
    ("intersection -> union", "mutant", TRACE, "return {k: a[k] for k in a if a[k] == b.get(k)}", "return {**b, **a}", ["C07.intersection"]),
    ("setup-chain: reversed update", "mutant", TRACE,
     "            in_state = infer_state_of(st)\n            in_state.update(dict(setup_op.iter_params()))\n            return in_state\n",
     "            in_state = infer_state_of(st)\n            own = dict(setup_op.iter_params())\n            own.update(in_state)\n            return own\n",
     ["C07.setup-chain"]),
    ("if-merge: first region only", "mutant", TRACE,
     "return state_intersection(*infer_states_for_if(if_op, state_var))", "return infer_states_for_if(if_op, state_var)[0]", ["C07.if-merge"]),
    ("effects: llvm.CallOp removed", "mutant", HELPERS, "isinstance(op, func.CallOp | llvm.CallOp)", "isinstance(op, func.CallOp)", ["C07.effects-table"]),
    ("effects: polarity flipped", "mutant", HELPERS, "return effects_attr.data != accfg.EffectsEnum.NONE", "return effects_attr.data == accfg.EffectsEnum.NONE", ["C07.effects-table"]),
    ("effects: recursion removed", "mutant", HELPERS,
     "    if any(has_accfg_effects(op) for region in op.regions for block in region.blocks for op in block.ops):\n        return True\n", "", ["C07.effects-table"]),
    ("weave: fallback clear removed", "mutant", WEAVE,
     "                elif has_accfg_effects(op):\n                    state.clear()\n", "                elif has_accfg_effects(op):\n                    pass\n", ["C07.weave-kill"]),
    ("weave: for-loop early continue without clear", "mutant", WEAVE,
     "                        if has_accfg_effects(op):\n                            state.clear()\n                        continue\n",
     "                        continue\n", ["C07.weave-kill"]),
    ("weave: if-branch deletion loop removed", "mutant", WEAVE,
     "                    for accel in [k for k in state if k not in if_state or k not in else_state]:\n                        del state[accel]\n", "", ["C07.weave-kill"]),
    ("weave: relink to op.in_state", "mutant", WEAVE,
     "                            op.accelerator,\n                            state[accel],\n", "                            op.accelerator,\n                            op.in_state,\n", ["C07.weave-link"]),
    ("weave: out_state recorded only when relinked", "mutant", WEAVE,
     "                        op = new_op\n                    state[accel] = op.out_state\n", "                        op = new_op\n                        state[accel] = op.out_state\n", ["C07.weave-link"]),
    # twins
    ("twin: intersection spelled with `k in b and`", "twin", TRACE, "if a[k] == b.get(k)}", "if k in b and a[k] == b[k]}", []),
    ("twin: rename locals in loop-head case", "twin", TRACE,
     "                    state = infer_state_of(for_op.iter_args[state_var.index - 1])",
     "                    init_idx = state_var.index - 1\n                    state = infer_state_of(for_op.iter_args[init_idx])", []),
    ("twin: effects test spelled with tuple", "twin", HELPERS, "isinstance(op, func.CallOp | llvm.CallOp)", "isinstance(op, (llvm.CallOp, func.CallOp))", []),
    ("twin: setup-chain with dict union", "twin", TRACE,
     "            in_state = infer_state_of(st)\n            in_state.update(dict(setup_op.iter_params()))\n            return in_state\n",
     "            return infer_state_of(st) | dict(setup_op.iter_params())\n", []),
]

CASES["C17"] = [
    ("reintroduce F-10 (ub // step)", "mutant", CANON, "-(-ub // step)", "ub // step", ["C17.trip-count"]),
    ("drop lb != 0 test of ChangeForStep", "mutant", CANON, "        # lb must be 0\n        if lb != 0:\n            return\n", "", ["C17.step-guards"]),
    ("drop iter_args test", "mutant", CANON, "        if len(op.iter_args) != 0:\n            return\n", "", ["C17.step-guards"]),
    ("iv = lb * j", "mutant", CANON, "new_iter_var = MuliOp(op.step, new_for.body.block.args[0])", "new_iter_var = MuliOp(op.ub, new_for.body.block.args[0])", ["C17.step-iv"]),
    ("merge: drop step tests", "mutant", CANON, "if lb != 0 or lb_parent != 0 or step != 1 or step_parent != 1:", "if lb != 0 or lb_parent != 0:", ["C17.merge-guards"]),
    ("merge: drop parent lb test", "mutant", CANON, "if lb != 0 or lb_parent != 0 or step != 1 or step_parent != 1:", "if lb != 0 or step != 1 or step_parent != 1:", ["C17.merge-guards"]),
    ("merge: divisor is parent ub", "mutant", CANON, "div_val = ConstantOp.from_int_and_width(ub, IndexType())", "div_val = ConstantOp.from_int_and_width(ub_parent, IndexType())", ["C17.merge-values"]),
    ("merge: outer gets remainder", "mutant", CANON, "new_parent_iter = DivUIOp(new_parent.body.block.args[0], div_val)", "new_parent_iter = RemUIOp(new_parent.body.block.args[0], div_val)", ["C17.merge-values"]),
    ("merge: new ub = ub + ub_parent", "mutant", CANON, "from_int_and_width(ub * ub_parent, IndexType())", "from_int_and_width(ub + ub_parent, IndexType())", ["C17.merge-values"]),
    ("hoist: without defined_outside_loop", "mutant", REUSE, "                    defined_outside_loop(op),\n", "", ["C17.hoist"]),
    ("hoist: purity test dropped", "mutant", REUSE, "                    Pure() in op.traits or is_whitelisted(main_op),\n", "", ["C17.hoist"]),
    ("hoist: block arguments accepted", "mutant", REUSE, "        if isinstance(operand.owner, Block):\n            return False\n        elif find_parent_for_loop", "        if isinstance(operand.owner, Block):\n            continue\n        elif find_parent_for_loop", ["C17.hoist"]),
    ("dims: users test dropped", "mutant", REUSE, "                    not used_by_neither_alloc_nor_subview(dim_op),\n", "", ["C17.dims"]),
    ("dims: sizes indexed by dim", "mutant", REUSE, "return subview.sizes[magic_numbers]", "return subview.sizes[index]", ["C17.dim-operand"]),
    # twins
    ("twin: ceil spelled (ub + step - 1) // step", "twin", CANON, "-(-ub // step)", "(ub + step - 1) // step", []),
    ("twin: lb test spelled `not lb == 0`", "twin", CANON, "        if lb != 0:\n            return\n", "        if not lb == 0:\n            return\n", []),
    ("twin: guard extracted into helper", "twin", CANON,
     "        if lb != 0 or lb_parent != 0 or step != 1 or step_parent != 1:\n            return\n",
     "        def normal(l: int, s: int) -> bool:\n            return l == 0 and s == 1\n\n        if not normal(lb, step) or not normal(lb_parent, step_parent):\n            return\n", []),
    ("twin: can_move_operation as plain conjunction", "twin", REUSE,
     "            if all(\n                [\n                    is_in_loop(op),\n                    defined_outside_loop(op),\n                    Pure() in op.traits or is_whitelisted(main_op),\n                    not isinstance(op, scf.YieldOp),\n                ]\n            ):\n                return True\n            return False\n",
     "            return (\n                is_in_loop(op)\n                and defined_outside_loop(op)\n                and (Pure() in op.traits or is_whitelisted(main_op))\n                and not isinstance(op, scf.YieldOp)\n            )\n", []),
]

DEDUP = "snaxc/transforms/accfg_dedup.py"
ACCFG = "snaxc/dialects/accfg.py"

CASES["C01"] = [
    ("simplify: drop any field ever set", "mutant", DEDUP, "if prev_state.get(name) != val", "if name not in prev_state", ["C01.simplify"]),
    ("simplify: state of out_state", "mutant", DEDUP, "prev_state = infer_state_of(op.in_state) if op.in_state else {}", "prev_state = infer_state_of(op.out_state) if op.in_state else {}", ["C01.simplify"]),
    ("simplify: replacement loses in_state", "mutant", DEDUP, "                op.accelerator,\n                op.in_state,\n            ),\n        )\n\n\nclass MergeSetupOps", "                op.accelerator,\n                None,\n            ),\n        )\n\n\nclass MergeSetupOps", ["C01.simplify"]),
    ("merge: purity abort deleted", "mutant", DEDUP, "            if not is_side_effect_free(prev_op):\n                return\n", "", ["C01.merge"]),
    ("merge: same-accelerator test dropped", "mutant", DEDUP, "if isinstance(prev_op, accfg.SetupOp) and prev_op.accelerator == op.accelerator:", "if isinstance(prev_op, accfg.SetupOp):", ["C01.merge"]),
    ("merge: later updated by earlier", "mutant", DEDUP, "        state = dict(prev_op.iter_params())\n        state.update(dict(op.iter_params()))\n", "        state = dict(op.iter_params())\n        state.update(dict(prev_op.iter_params()))\n", ["C01.merge"]),
    ("merge: keeps op.in_state", "mutant", DEDUP, "accfg.SetupOp(state.values(), state.keys(), op.accelerator, prev_op.in_state)", "accfg.SetupOp(state.values(), state.keys(), op.accelerator, op.in_state)", ["C01.merge"]),
    ("elide: in_state test dropped", "mutant", DEDUP, "if len(op.values) == 0 and op.in_state is not None:", "if len(op.values) == 0:", ["C01.elide"]),
    ("elide: values test dropped", "mutant", DEDUP, "if len(op.values) == 0 and op.in_state is not None:", "if op.in_state is not None:", ["C01.elide"]),
    ("pull: defined-in-block arm deleted", "mutant", DEDUP,
     "                if val_is_defined_in_block(val, loop_op.body.block):\n                    unsafe_vals.add(key)\n                # and also if it changes at any point in the loop\n                elif key in",
     "                if key in", ["C01.pull"]),
    ("pull: two-values arm deleted", "mutant", DEDUP,
     "                elif key in acc_fields_to_values and acc_fields_to_values[key] != val:\n                    unsafe_vals.add(key)\n", "", ["C01.pull"]),
    ("pull: block-argument test flipped", "mutant", DEDUP, "if op.in_state is None or op.in_state.owner != loop_op.body.block:", "if op.in_state is None:", ["C01.pull"]),
    ("pull: no subtraction", "mutant", DEDUP, "tuple(sorted(safe_values - unsafe_vals))", "tuple(sorted(safe_values))", ["C01.pull"]),
    ("pull: only top-level setups scanned", "mutant", DEDUP, "for setup in all_setup_ops_in_region(loop_op.body, op.accelerator.data):",
     "for setup in (dict(o.iter_params()) for o in loop_op.body.block.ops if isinstance(o, accfg.SetupOp)):", ["C01.pull"]),
    ("hoist-if: launch index test deleted", "mutant", DEDUP,
     "            if block.get_operation_index(launch_op) < block.get_operation_index(op):\n                return\n", "", ["C01.hoist-if"]),
    ("hoist-if: launch index test flipped", "mutant", DEDUP, "if block.get_operation_index(launch_op) < block.get_operation_index(op):", "if block.get_operation_index(launch_op) > block.get_operation_index(op):", ["C01.hoist-if"]),
    ("hoist-if: same-block test deleted", "mutant", DEDUP, "            if launch_op.parent_block() is not op.parent_block():\n                return\n", "", ["C01.hoist-if"]),
    ("hoist-if: yield index 0", "mutant", DEDUP, "new_in_state = yield_op.operands[old_in_state.index]", "new_in_state = yield_op.operands[0]", ["C01.hoist-if"]),
    ("effects: LaunchOp declared Pure", "mutant", ACCFG, '    name = "accfg.launch"\n', '    name = "accfg.launch"\n\n    traits = traits_def(Pure())\n', ["C01.effects"]),
    ("state inference: F-1 reintroduced", "mutant", TRACE, "@revert:139cd1d", "", ["C01.state-soundness"]),
    # twins
    ("twin: filter spelled with not-in", "twin", DEDUP, "if prev_state.get(name) != val", "if name not in prev_state or prev_state[name] != val", []),
    ("twin: elide spelled with truthiness", "twin", DEDUP, "if len(op.values) == 0 and op.in_state is not None:", "if not op.values and op.in_state is not None:", []),
    ("twin: merge map via dict union", "twin", DEDUP, "        state = dict(prev_op.iter_params())\n        state.update(dict(op.iter_params()))\n", "        state = dict(prev_op.iter_params()) | dict(op.iter_params())\n", []),
    ("twin: hoist-if positions in locals", "twin", DEDUP, "            if block.get_operation_index(launch_op) < block.get_operation_index(op):\n                return\n",
     "            launch_pos = block.get_operation_index(launch_op)\n            own_pos = block.get_operation_index(op)\n            if not launch_pos >= own_pos:\n                return\n", []),
]

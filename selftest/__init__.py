"""Self-validation of the checkers: mutants (must fire, naming the rule) and silent twins
(behaviour-preserving rewrites, must stay silent).  See DESIGN.md section 7."""
